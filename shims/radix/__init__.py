"""Minimal stand-in for py-radix (only what yabgp uses)."""
import ipaddress

class RadixNode(object):
    def __init__(self, net):
        self.network = str(net.network_address)
        self.prefixlen = net.prefixlen
        self.prefix = '%s/%d' % (net.network_address, net.prefixlen)
        self.family = 2 if net.version == 4 else 10
        self.data = {}

class Radix(object):
    def __init__(self):
        self._nodes = {}
    @staticmethod
    def _net(p):
        return ipaddress.ip_network(p, strict=False)
    def add(self, network=None, masklen=None, packed=None):
        net = self._net(network if masklen is None else '%s/%d' % (network, masklen))
        return self._nodes.setdefault(net, RadixNode(net))
    def delete(self, network=None, masklen=None, packed=None):
        net = self._net(network if masklen is None else '%s/%d' % (network, masklen))
        if net not in self._nodes:
            raise KeyError('match not found')
        del self._nodes[net]
    def search_exact(self, network=None, masklen=None, packed=None):
        net = self._net(network if masklen is None else '%s/%d' % (network, masklen))
        return self._nodes.get(net)
    def search_best(self, network=None, masklen=None, packed=None):
        net = self._net(network if masklen is None else '%s/%d' % (network, masklen))
        best = None
        for n, node in self._nodes.items():
            if n.version == net.version and n.prefixlen <= net.prefixlen and net.subnet_of(n):
                if best is None or n.prefixlen > best[0].prefixlen:
                    best = (n, node)
        return best[1] if best else None
    def __contains__(self, item):
        return self.search_best(item) is not None
    def nodes(self):
        return list(self._nodes.values())
    def prefixes(self):
        return [n.prefix for n in self._nodes.values()]
