__version__ = 'sim-20.3.0'
