class Failure(object):
    def __init__(self, exc_value=None):
        self.value = exc_value
        self.type = type(exc_value)
    def getErrorMessage(self):
        if isinstance(self.value, Failure):
            return self.value.getErrorMessage()
        return str(self.value)
    def check(self, *types):
        for t in types:
            if isinstance(self.value, t):
                return t
        return None
    def __repr__(self):
        return '<Failure %s>' % (self.type.__name__,)
