class AlreadyCalled(ValueError):
    """Tried to cancel an already-called event."""
class AlreadyCancelled(ValueError):
    """Tried to cancel an already-cancelled event."""
class ConnectError(Exception):
    MESSAGE = 'An error occurred while connecting'
    def __init__(self, osError=None, string=''):
        self.osError = osError
        Exception.__init__(self, string)
    def __str__(self):
        s = self.MESSAGE
        if self.osError:
            s = '%s: %s' % (s, self.osError)
        if self.args and self.args[0]:
            s = '%s: %s' % (s, self.args[0])
        return '%s.' % s
class ConnectionRefusedError(ConnectError):
    MESSAGE = 'Connection was refused by other side'
class TimeoutError(ConnectError):
    MESSAGE = 'User timeout caused connection failure'
class NoRouteError(ConnectError):
    MESSAGE = 'No route to host'
class UserError(ConnectError):
    MESSAGE = 'User aborted connection'
class ConnectionClosed(Exception):
    pass
class ConnectionLost(ConnectionClosed):
    MESSAGE = 'Connection to the other side was lost in a non-clean fashion'
    def __str__(self):
        s = self.MESSAGE
        if self.args and self.args[0]:
            s = '%s: %s' % (s, self.args[0])
        return '%s.' % s
class ConnectionDone(ConnectionClosed):
    MESSAGE = 'Connection was closed cleanly'
    def __str__(self):
        return '%s.' % self.MESSAGE
class ConnectionAborted(ConnectionLost):
    MESSAGE = 'Connection was aborted locally using ITCPTransport.abortConnection'
class NotConnectingError(RuntimeError):
    pass
