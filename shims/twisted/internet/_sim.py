"""Deterministic stand-in for the Twisted reactor (virtual time, scripted network).

Trusted base of every session-level check (DESIGN.md 2.1).  It reproduces the
Twisted semantics yabgp relies on and nothing else:

* callLater -> DelayedCall with cancel/reset/delay/active/getTime raising
  AlreadyCalled / AlreadyCancelled like twisted.internet.base.DelayedCall;
* calls due at one instant may run in any order (the driver takes a chooser);
* connectTCP creates a connector in state 'connecting', arms its timeout as an
  ordinary delayed call; the environment accepts or refuses it;
* transport.write is recorded with its virtual timestamp while connected;
  loseConnection() sets 'disconnecting', stops delivery of peer data and
  queues connectionLost(ConnectionDone) for the I/O phase;
* callFromThread queues the call for the next reactor iteration;
* an exception escaping dataReceived is recorded and the connection is lost
  with that failure; one escaping a timer callback is recorded and the reactor
  continues (Twisted logs "Unhandled Error" in both cases).
"""
import itertools
from . import error
from twisted.python.failure import Failure


class DelayedCall(object):
    def __init__(self, reactor, time, func, args, kw, seq):
        self.reactor, self.time, self.func, self.args, self.kw = reactor, time, func, args, kw
        self.seq = seq
        self.cancelled = self.called = 0

    def getTime(self):
        return self.time

    def cancel(self):
        if self.cancelled:
            raise error.AlreadyCancelled
        elif self.called:
            raise error.AlreadyCalled
        self.cancelled = 1
        self.reactor._calls.remove(self)

    def reset(self, secondsFromNow):
        if self.cancelled:
            raise error.AlreadyCancelled
        elif self.called:
            raise error.AlreadyCalled
        self.time = self.reactor.seconds() + secondsFromNow

    def delay(self, secondsLater):
        if self.cancelled:
            raise error.AlreadyCancelled
        elif self.called:
            raise error.AlreadyCalled
        self.time += secondsLater

    def active(self):
        return not (self.cancelled or self.called)

    @property
    def name(self):
        f = self.func
        return getattr(f, '__name__', None) or type(f).__name__


class Address(object):
    def __init__(self, host, port):
        self.type, self.host, self.port = 'TCP', host, port


class SimTransport(object):
    def __init__(self, reactor, connector, protocol):
        self.reactor, self.connector, self.protocol = reactor, connector, protocol
        self.connected = 1
        self.disconnecting = 0
        self.disconnected = 0
        self.written = []     # (time, bytes, tracked_by_fsm)
        self.delivered = []   # (time, bytes) chunks handed to dataReceived
        self.nodelay = False
        self.closed_by = None   # 'local' | 'peer' | 'error'
        self.t_open = reactor.seconds()
        self.t_lose = None
        self.t_closed = None

    # ITCPTransport
    def setTcpNoDelay(self, v):
        self.nodelay = v

    def getHost(self):
        b = self.connector.bindAddress
        host = b[0] if b and b[0] not in (None, '', '0.0.0.0', '::') else self.reactor.local_host
        return Address(host, 54321)

    def getPeer(self):
        return Address(self.connector.host, self.connector.port)

    def getHandle(self):
        return self

    def setsockopt(self, *a):
        pass

    def write(self, data):
        if isinstance(data, str):
            raise TypeError("Data must not be unicode")
        if not self.connected:
            return
        if data:
            rec = (self.reactor.seconds(), bytes(data))
            self.written.append(rec)
            self.reactor._trace(('write', self.connector.cid, bytes(data)))
            for cb in self.reactor.write_observers:
                cb(self, bytes(data))

    def writeSequence(self, seq):
        for d in seq:
            self.write(d)

    def loseConnection(self):
        if self.connected and not self.disconnecting:
            self.disconnecting = 1
            self.t_lose = self.reactor.seconds()
            self.reactor._trace(('lose', self.connector.cid))
            self.reactor._io_pending.append(('closed_local', self))

    def abortConnection(self):
        if self.connected and not self.disconnecting:
            self.disconnecting = 1
            self.t_lose = self.reactor.seconds()
            self.reactor._trace(('abort', self.connector.cid))
            self.reactor._io_pending.append(('aborted_local', self))

    # sim-side
    def _connection_lost(self, exc, by):
        if not self.connected:
            return
        self.connected = 0
        self.disconnected = 1
        self.closed_by = self.closed_by or by
        self.t_closed = self.reactor.seconds()
        # drop queued local close of this transport, if any
        self.reactor._io_pending = [x for x in self.reactor._io_pending if x[1] is not self]
        reason = Failure(exc)
        self.reactor._trace(('connlost', self.connector.cid, type(exc).__name__))
        self.reactor._guard('connectionLost', self.protocol.connectionLost, reason)
        self.connector._connection_lost(reason)

    def sim_deliver(self, data):
        """Peer data arrives.  Returns False if the transport no longer reads."""
        if not self.connected or self.disconnecting:
            return False
        self.delivered.append((self.reactor.seconds(), bytes(data)))
        self.reactor._trace(('deliver', self.connector.cid, len(data)))
        try:
            self.protocol.dataReceived(data)
        except Exception as e:     # Twisted: log "Unhandled Error", lose the connection
            self.reactor.escaped.append(('dataReceived', repr(e), self.reactor.seconds()))
            self.closed_by = 'error'
            self._connection_lost(error.ConnectionLost(repr(e)), 'error')
        return True

    def sim_peer_close(self, clean=True):
        if not self.connected:
            return False
        self._connection_lost(error.ConnectionDone() if clean else error.ConnectionLost('reset'), 'peer')
        return True


class _PendingSocket(object):
    """what connector.transport is while the connect is in progress (Twisted: the Client with its fresh socket):
    only getHandle().setsockopt() is used on it (TCP MD5 signature); the environment may make that call fail"""

    def __init__(self, reactor):
        self.reactor = reactor
        self.sockopts = []

    def getHandle(self):
        return self

    def setsockopt(self, *a):
        self.sockopts.append(a)
        if self.reactor.setsockopt_error is not None:
            raise self.reactor.setsockopt_error


class SimConnector(object):
    def __init__(self, reactor, host, port, factory, timeout, bindAddress, cid):
        self.reactor, self.host, self.port, self.factory = reactor, host, port, factory
        self.timeout, self.bindAddress, self.cid = timeout, bindAddress, cid
        self.state = 'disconnected'
        self.transport = None
        self.timeoutID = None
        self.factoryStarted = 0
        self.t_start = reactor.seconds()
        self.outcome = None      # accepted / refused / timeout / aborted
        self.transports = []

    def getDestination(self):
        return Address(self.host, self.port)

    def connect(self):
        if self.state != 'disconnected':
            raise RuntimeError("can't connect in this state")
        self.state = 'connecting'
        self.transport = _PendingSocket(self.reactor)
        if not self.factoryStarted:
            self.factory.doStart()
            self.factoryStarted = 1
        self.reactor._trace(('connect', self.cid))
        if self not in self.reactor._attempts:
            self.reactor._attempts.append(self)
        if self.timeout is not None:
            self.timeoutID = self.reactor.callLater(self.timeout, self._timeout)
            self.timeoutID._sim_kind = 'tcp-timeout'
        self.factory.startedConnecting(self)

    def _timeout(self):
        self.timeoutID = None
        self.outcome = 'timeout'
        self.connectionFailed(Failure(error.TimeoutError()))

    def cancelTimeout(self):
        if self.timeoutID is not None:
            try:
                self.timeoutID.cancel()
            except ValueError:
                pass
            self.timeoutID = None

    def stopConnecting(self):
        if self.state != 'connecting':
            raise error.NotConnectingError("we're not trying to connect")
        self.state = 'disconnected'
        self.outcome = 'aborted'
        self.connectionFailed(Failure(error.UserError()))

    def disconnect(self):
        if self.state == 'connecting':
            self.stopConnecting()
        elif self.state == 'connected':
            self.transport.loseConnection()

    def connectionFailed(self, reason):
        self.cancelTimeout()
        self.transport = None
        self.state = 'disconnected'
        self.reactor._trace(('connfail', self.cid, reason.type.__name__))
        self.factory.clientConnectionFailed(self, reason)
        if self.state == 'disconnected':
            self.factory.doStop()
            self.factoryStarted = 0

    def _connection_lost(self, reason):
        self.state = 'disconnected'
        self.factory.clientConnectionLost(self, reason)
        if self.state == 'disconnected':
            self.factory.doStop()
            self.factoryStarted = 0

    # environment (peer) actions
    def sim_accept(self):
        assert self.state == 'connecting'
        self.cancelTimeout()
        protocol = self.factory.buildProtocol(Address(self.host, self.port))
        if protocol is None:
            self.connectionFailed(Failure(error.UserError()))
            return None
        self.state = 'connected'
        self.outcome = 'accepted'
        self.transport = SimTransport(self.reactor, self, protocol)
        self.transports.append(self.transport)
        self.reactor._trace(('accepted', self.cid))
        self.reactor._guard('connectionMade', protocol.makeConnection, self.transport)
        return self.transport

    def sim_refuse(self, exc=None):
        assert self.state == 'connecting'
        self.outcome = 'refused'
        self.connectionFailed(Failure(exc or error.ConnectionRefusedError()))


class SimReactor(object):
    def __init__(self):
        self.local_host = '192.0.2.1'
        self.reset()

    def reset(self):
        self._now = 0.0
        self._calls = []
        self._seq = itertools.count()
        self._thread_q = []
        self._io_pending = []
        self._attempts = []
        self._cid = itertools.count(1)
        self.trace = []
        self.trace_on = True
        self.escaped = []          # exceptions that escaped a callback
        self.write_observers = []
        self.connect_observers = []
        self.running = True
        self.setsockopt_error = None    # an OSError instance: setsockopt on a connecting socket fails (kernel refuses TCP_MD5SIG)
        self.defer_io = False      # True: a local close completes only when the environment says so (sim_complete_close)
        self.choices = []          # sizes of same-instant ready sets > 1 seen

    def _trace(self, ev):
        if self.trace_on:
            self.trace.append((self._now,) + ev)

    def _guard(self, what, f, *a, **kw):
        try:
            return f(*a, **kw)
        except Exception as e:
            self.escaped.append((what, repr(e), self._now))

    def seconds(self):
        return self._now

    def callLater(self, delay, f, *a, **kw):
        assert callable(f)
        assert delay >= 0, delay
        dc = DelayedCall(self, self._now + delay, f, a, kw, next(self._seq))
        self._calls.append(dc)
        return dc

    def callFromThread(self, f, *a, **kw):
        self._thread_q.append((f, a, kw))

    def callInThread(self, f, *a, **kw):
        f(*a, **kw)

    def connectTCP(self, host, port, factory, timeout=30, bindAddress=None):
        c = SimConnector(self, host, port, factory, timeout, bindAddress, next(self._cid))
        for cb in self.connect_observers:
            cb(c)
        c.connect()
        return c

    def listenTCP(self, *a, **kw):
        return None

    def suggestThreadPoolSize(self, n):
        pass

    def getThreadPool(self):
        return None

    def run(self):
        pass

    def stop(self):
        self.running = False

    def getDelayedCalls(self):
        return list(self._calls)

    # ---- simulation driver
    def due(self):
        return sorted([c for c in self._calls if c.time <= self._now + 1e-12], key=lambda c: (c.time, c.seq))

    def next_time(self):
        return min((c.time for c in self._calls), default=None)

    def fire(self, dc):
        self._calls.remove(dc)
        dc.called = 1
        try:
            dc.func(*dc.args, **dc.kw)
        except Exception as e:
            self.escaped.append(('timer:' + dc.name, repr(e), self._now))

    def flush_threads(self):
        n = 0
        while self._thread_q:
            f, a, kw = self._thread_q.pop(0)
            self._guard('thread', f, *a, **kw)
            n += 1
        return n

    def _io_one(self, item):
        kind, tr = item
        self._io_pending.remove(item)
        if kind == 'closed_local':
            tr._connection_lost(error.ConnectionDone(), 'local')
        else:
            tr._connection_lost(error.ConnectionAborted(), 'local')

    def ready(self):
        """Everything that may run now: due timers and queued local closes."""
        return [('timer', d) for d in self.due()] + ([] if self.defer_io else [('io', x) for x in self._io_pending])

    def sim_complete_close(self, idx=0):
        """(defer_io mode) the write buffer of a connection we are closing drains: connectionLost is delivered"""
        if idx >= len(self._io_pending):
            return False
        self._io_one(self._io_pending[idx])
        return True

    def settle(self, chooser=None):
        """Run everything that is due at the current instant (timers, thread queue, local closes).
        chooser(list_of_ready) -> index picks among same-instant items."""
        guard = 0
        while True:
            guard += 1
            if guard > 100000:
                raise SimLivelock('settle did not converge')
            self.flush_threads()
            r = self.ready()
            if not r:
                if not self._thread_q:
                    break
                continue
            if len(r) > 1:
                self.choices.append(len(r))
                i = chooser(r) if chooser else 0
            else:
                i = 0
            kind, obj = r[i]
            if kind == 'timer':
                self.fire(obj)
            else:
                self._io_one(obj)

    def run_pass(self, chooser=None):
        """One reactor iteration before it looks at the network: the thread queue, then the timed calls that are due NOW in
        the order the chooser picks - not the ones these calls schedule (a callLater(0) made during the pass runs in the next
        iteration, after the sockets have been looked at)."""
        self.flush_threads()
        batch = list(self.due())
        while batch:
            live = [d for d in batch if d in self._calls]
            if not live:
                break
            if len(live) > 1:
                self.choices.append(len(live))
                i = chooser([('timer', d) for d in live]) if chooser else 0
            else:
                i = 0
            d = live[i]
            batch.remove(d)
            self.fire(d)

    def step_one(self, chooser=None):
        """Sub-instant granularity: run ONE ready item (the clock moves to the next timer when nothing is due now) and leave
        whatever else is due at this instant pending.  Reactor iterations are separate - a zero-delay call runs in the next
        one - and a REST worker thread can get in between; the next settle() finishes the instant."""
        self.flush_threads()
        r = self.ready()
        if not r:
            nt = self.next_time()
            if nt is None:
                return False
            self._now = max(self._now, nt)
            r = self.ready()
        if len(r) > 1:
            self.choices.append(len(r))
            i = chooser(r) if chooser else 0
        else:
            i = 0
        kind, obj = r[i]
        if kind == 'timer':
            self.fire(obj)
        else:
            self._io_one(obj)
        return True

    def advance(self, dt, chooser=None):
        target = self._now + dt
        self.settle(chooser)
        while True:
            nt = self.next_time()
            if nt is None or nt > target:
                break
            self._now = max(self._now, nt)
            self.settle(chooser)
        self._now = max(self._now, target)
        self.settle(chooser)

    def advance_before(self, target, chooser=None):
        """Advance the clock to `target`, running every call due strictly before it and NOT the
        ones due exactly at it (so a peer message can be delivered first at that instant)."""
        self.settle(chooser)
        while True:
            nt = self.next_time()
            if nt is None or nt >= target - 1e-9:
                break
            self._now = max(self._now, nt)
            self.settle(chooser)
        self._now = max(self._now, target)

    def advance_to_next(self, chooser=None):
        nt = self.next_time()
        if nt is None:
            return False
        self._now = max(self._now, nt)
        self.settle(chooser)
        return True


class SimLivelock(BaseException):
    pass
