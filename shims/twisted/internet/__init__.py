from . import error  # noqa
from ._sim import SimReactor
reactor = SimReactor()
