"""stdlib json with simplejson's py3 default of treating bytes as UTF-8 text."""
import json as _json
from json import JSONDecodeError  # noqa

def _default(o):
    if isinstance(o, (bytes, bytearray)):
        return bytes(o).decode('utf-8')
    raise TypeError('Object of type %s is not JSON serializable' % o.__class__.__name__)

def dump(obj, fp, **kw):
    kw.setdefault('default', _default)
    return _json.dump(obj, fp, **kw)

def dumps(obj, **kw):
    kw.setdefault('default', _default)
    return _json.dumps(obj, **kw)

load = _json.load
loads = _json.loads
