#!/usr/bin/env python3
"""Generates MANIFEST.json from the check modules' metadata (keeps it valid at all times)."""
import importlib, json, os, sys
HERE = os.path.dirname(os.path.abspath(__file__))
sys.path.insert(0, HERE)
os.environ.setdefault('VERIF_SKIP_SETUP', '1')
ALL = ['C%02d' % i for i in range(1, 21)]
LEVEL_TEXT = json.load(open(os.path.join(HERE, 'levels.json')))
fix_commits = []
checks = []
na = []
for cid in ALL:
    path = os.path.join(HERE, 'checks', cid.lower() + '.py')
    meta = LEVEL_TEXT.get(cid)
    if not os.path.exists(path) or not meta:
        na.append(dict(property_id=cid, reason='check not built yet in this round (planned: DESIGN.md section 5)'))
        continue
    src = open(path).read()
    def grab(name):
        import re, ast
        m = re.search(r'^%s = (.*)$' % name, src, re.M)
        return ast.literal_eval(m.group(1)) if m else ''
    checks.append(dict(
        property_id=cid,
        quick_cmd='./check %s --tier quick' % cid,
        thorough_cmd='./check %s --tier thorough' % cid,
        evidence_file='evidence/%s.json' % cid,
        replay_cmd_template='./check %s --replay {path}' % cid,
        engine='verif-runtime-monitors',
        level_claimed=dict(category=grab('LEVEL'), text=meta['text'], design_ref=meta['design_ref']),
        level_note=meta['note'],
        technique=grab('TECHNIQUE')))
man = dict(
    version=1,
    setup_cmd="/venv/bin/pip install --quiet --no-index --find-links /opt/veriftools/wheels --target /verif/.deps icontract deal || true",
    hooks=dict(guard='YABGP_VERIF', enable='no source hooks: every observation point is reached from outside (simulated reactor/transport, handler argument, WSGI test client, log directory); checks import yabgp from /repo working tree with YABGP_VERIF=1 set',
               baseline_off_cmd='cd /repo && /venv/bin/python -m pytest -ra -q -p no:cacheprovider --timeout=900 --continue-on-collection-errors yabgp',
               source_commits=[], add_only=True),
    engines=[dict(name='verif-runtime-monitors', path='vlib/', serves_properties=[c['property_id'] for c in checks],
                  kind_free_text='runtime monitoring of the real yabgp code on a simulated Twisted reactor: boundary monitors, reference models/codecs, work meter (sys.monitoring), contracts (icontract), fault injection')],
    checks=checks,
    notes='See DESIGN.md. Exit codes: 0 held on what was observed, 1 VIOLATION, 2 inconclusive (deciding monitor not reached). known_findings.json lists recorded findings and fixed: entries.',
    not_applicable=na)
json.dump(man, open(os.path.join(HERE, 'MANIFEST.json'), 'w'), indent=1)
print('checks:', [c['property_id'] for c in checks])
