#!/venv/bin/python
"""Self-validation (DESIGN.md 9): apply small, test-suite-passing mutations to a scratch copy of the
repository and confirm that the quick check of the named property reports each one.

usage: selftest/run.py [--only C12[,C13]] [--id NAME] [--tests] [--tier quick]
Not one of the registered checks; scratch copies live under $TMPDIR and are removed at once.
"""
import argparse
import json
import os
import shutil
import subprocess
import sys
import tempfile
import time

HERE = os.path.dirname(os.path.abspath(__file__))
VERIF = os.path.dirname(HERE)
REPO = '/repo'


def load():
    with open(os.path.join(HERE, 'mutants.json')) as fh:
        return json.load(fh)


def run_one(m, tier, tests):
    tmp = tempfile.mkdtemp(prefix='verif-mut-')
    try:
        dst = os.path.join(tmp, 'repo')
        shutil.copytree(REPO, dst, ignore=shutil.ignore_patterns('.git', '__pycache__', '*.pyc', '.tox', '*.egg-info'))
        for e in m['edits']:
            p = os.path.join(dst, e['file'])
            s = open(p).read()
            # 'count': n -> the pattern may occur several times (two copies of the same code), the first n are changed
            if s.count(e['old']) != 1 and not (e.get('count') and s.count(e['old']) >= e['count']):
                return dict(id=m['id'], status='BAD-MUTANT', note='pattern occurs %d times in %s' % (s.count(e['old']), e['file']))
            open(p, 'w').write(s.replace(e['old'], e['new'], e.get('count', 1)))
        out = dict(id=m['id'], property=m['property'])
        if tests:
            r = subprocess.run(['/venv/bin/python', '-m', 'pytest', '-q', '-p', 'no:cacheprovider', '-x', 'yabgp'], cwd=dst,
                               capture_output=True, text=True, timeout=600)
            out['tests_pass'] = (r.returncode == 0)
        t0 = time.monotonic()
        env = dict(os.environ, VERIF_REPO=dst, VERIF_REPLAY_DIR=os.path.join(tmp, 'replays'))
        r = subprocess.run([os.path.join(VERIF, 'check'), m['property'], '--tier', tier, '--no-evidence'], cwd=VERIF, env=env,
                           capture_output=True, text=True, timeout=3600)
        out['exit'] = r.returncode
        out['wall'] = round(time.monotonic() - t0, 1)
        vio = [ln for ln in r.stdout.splitlines() if ln.startswith('VIOLATION')]
        out['status'] = 'CAUGHT' if (r.returncode == 1 and vio) else ('INCONCLUSIVE' if r.returncode == 2 else 'MISSED')
        det = [ln.strip() for ln in r.stdout.splitlines() if ln.startswith('  [')]
        out['first'] = det[0][:200] if det else (r.stdout[-300:] + r.stderr[-300:] if out['status'] != 'CAUGHT' else '')
        return out
    finally:
        shutil.rmtree(tmp, ignore_errors=True)


def main():
    ap = argparse.ArgumentParser()
    ap.add_argument('--only')
    ap.add_argument('--id')
    ap.add_argument('--tests', action='store_true')
    ap.add_argument('--tier', default='quick')
    a = ap.parse_args()
    ms = load()
    if a.only:
        ms = [m for m in ms if m['property'] in a.only.split(',')]
    if a.id:
        ms = [m for m in ms if m['id'] in a.id.split(',')]
    res = []
    for m in ms:
        r = run_one(m, a.tier, a.tests)
        res.append(r)
        print('%-14s %-40s %s %s' % (r.get('status'), r['id'], r.get('tests_pass', ''), r.get('first', r.get('note', ''))[:160]), flush=True)
    with open(os.path.join(HERE, 'last_results.json'), 'w') as fh:
        json.dump(res, fh, indent=1)
    bad = [r for r in res if r.get('status') != 'CAUGHT']
    print('%d mutants, %d caught, %d not' % (len(res), len(res) - len(bad), len(bad)))
    return 1 if bad else 0


if __name__ == '__main__':
    sys.exit(main())
