#!/venv/bin/python
"""DESIGN.md 4.5: the repository's own tests run with the harness contracts active (round trip + structural walker on Update.construct).
A contract that fires here is either too strict or a defect the tests do not assert: read the witness before relaxing anything."""
import json
import os
import sys
HERE = os.path.dirname(os.path.abspath(__file__))
sys.path.insert(0, os.path.dirname(HERE))
from vlib import env
env.setup()
from vlib import contracts, walker
contracts.STATE['walker'] = lambda b, asn4=None, addpath=False: walker.walk(b, asn4=asn4, addpath=addpath)
contracts.install()
import pytest
os.chdir(env.REPO)
rc = pytest.main(['-q', '-p', 'no:cacheprovider', 'yabgp'])
print('pytest exit', rc)
print('contract evaluations', json.dumps(contracts.STATE['evaluations']))
seen = {}
for v in contracts.STATE['violations']:
    seen.setdefault((v['contract'], v['why'][:120]), v)
print('distinct contract reports', len(seen))
for (c, w), v in list(seen.items())[:20]:
    print(' -', c, '|', w, '|', json.dumps(v['msg'])[:200])
