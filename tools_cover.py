#!/usr/bin/env python3
"""Merge the line sets left by VERIF_COVER runs and list the yabgp function lines no workload executed.

  VERIF_COVER=/dev/shm/cov ./check C06 --tier quick --no-evidence ; python3 tools_cover.py /dev/shm/cov [file-substring]
"""
import glob
import json
import os
import sys
import types

REPO = os.environ.get('VERIF_REPO', '/repo')


def func_lines(path):
    """Executable lines that belong to function bodies (module-level statements run at import)."""
    with open(path) as fh:
        src = fh.read()
    top = compile(src, path, 'exec')
    out = set()

    def walk(co, infunc):
        if infunc:
            for _, _, ln in co.co_lines():
                if ln is not None and ln != co.co_firstlineno:
                    out.add(ln)
        for c in co.co_consts:
            if isinstance(c, types.CodeType):
                # class bodies run at import too
                walk(c, infunc or not c.co_name[:1].isupper() and c.co_name != '<module>' and
                     (c.co_flags & 0x2) != 0)   # CO_NEWLOCALS: functions, lambdas, comprehensions
    walk(top, False)
    return out


def main():
    d = sys.argv[1]
    want = sys.argv[2] if len(sys.argv) > 2 else ''
    seen, started, returned = set(), set(), set()
    for f in glob.glob(os.path.join(d, '*.json')):
        rec = json.load(open(f))
        for fn, ln in rec['lines']:
            seen.add((fn, ln))
        started.update(tuple(x) for x in rec.get('started', []))
        returned.update(tuple(x) for x in rec.get('returned', []))
    never = sorted(started - returned)
    if never and not want:
        print('functions entered but never left by a return (every call raised): %d' % len(never))
        for fn, ln, q in never:
            print('   %s:%d %s' % (fn, ln, q))
    root = os.path.join(REPO, 'yabgp')
    tot = hit = 0
    rows = []
    for dp, dn, fns in os.walk(root):
        if 'tests' in dp.split(os.sep):
            continue
        for fn in fns:
            if not fn.endswith('.py'):
                continue
            p = os.path.join(dp, fn)
            rel = os.path.relpath(p, root)
            lines = func_lines(p)
            got = {ln for f2, ln in seen if f2 == rel}
            miss = sorted(lines - got)
            tot += len(lines)
            hit += len(lines & got)
            if lines:
                rows.append((rel, len(lines), len(lines & got), miss))
    rows.sort(key=lambda r: -len(r[3]))
    print('function lines %d, executed %d (%.1f%%)' % (tot, hit, 100.0 * hit / max(tot, 1)))
    for rel, n, h, miss in rows:
        if want and want not in rel:
            continue
        if miss:
            print('%-55s %4d/%4d  missed: %s' % (rel, h, n, _ranges(miss)))


def _ranges(ls):
    out = []
    a = b = None
    for x in ls:
        if a is None:
            a = b = x
        elif x == b + 1:
            b = x
        else:
            out.append((a, b))
            a = b = x
    if a is not None:
        out.append((a, b))
    return ' '.join('%d' % a if a == b else '%d-%d' % (a, b) for a, b in out)


if __name__ == '__main__':
    main()
