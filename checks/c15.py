"""C15  List decoders are compositional; attribute order is irrelevant."""
import itertools
import json
import random
import struct

from vlib import env, gen, refenc, corpus
env.setup()

PROPERTY = 'C15'
LEVEL = 'exploration'
TECHNIQUE = 'runtime monitoring by metamorphic relation on the real list decoders: dec(a||b) == dec(a)+dec(b) for all ordered pairs (and random k-tuples) of per-kind element pools, attribute permutations of UPDATEs, unknown-TLV insertion'
RULE = ('per list kind a pool of well-formed element encodings (reference encoder + unit-test corpus + synthesised registered TLVs), each '
        'element first required to decode alone; then all ordered pairs (pool capped per tier) and random k-tuples (k<=8) are decoded '
        'concatenated and compared with the concatenation of the separate decodings; UPDATE attribute lists are permuted (all '
        'permutations up to 5 attributes, random beyond) and must decode to the same dictionary; unknown TLVs inserted between known '
        'ones must leave the others unchanged (link-state: every code within two of a supported one, bodies of 0..17 octets); flowspec rules through MP_REACH and MP_UNREACH; distinct = distinct (kind, tuple) cases')
ASSUMPTIONS = ['elements from vlib/refenc.py and from the unit-test corpus; only elements that decode alone without error enter a pool (pool sizes are evidence)']
SHARD_TIMEOUT = {'quick': 400, 'thorough': 2400}
_N = gen.norm


def tlv_split(data, tlen=2, llen=2):
    """split a TLV sequence; None if the framing does not cover the data exactly"""
    out, i = [], 0
    while i < len(data):
        if i + tlen + llen > len(data):
            return None
        ln = int.from_bytes(data[i + tlen:i + tlen + llen], 'big')
        if i + tlen + llen + ln > len(data):
            return None
        out.append(data[i:i + tlen + llen + ln])
        i += tlen + llen + ln
    return out


def build_kinds(rng, cap):
    """name -> dict(pool, dec, join)"""
    from yabgp.message.update import Update
    from yabgp.message.open import Open
    from yabgp.message.attribute.nlri.ipv4_unicast import IPv4Unicast
    from yabgp.message.attribute.nlri.ipv6_unicast import IPv6Unicast
    from yabgp.message.attribute.nlri.labeled_unicast.ipv4 import IPv4LabeledUnicast
    from yabgp.message.attribute.nlri.labeled_unicast.ipv6 import IPv6LabeledUnicast
    from yabgp.message.attribute.nlri.ipv4_mpls_vpn import IPv4MPLSVPN
    from yabgp.message.attribute.nlri.ipv6_mpls_vpn import IPv6MPLSVPN
    from yabgp.message.attribute.nlri.evpn import EVPN
    from yabgp.message.attribute.nlri.linkstate import BGPLS
    from yabgp.message.attribute.mpreachnlri import MpReachNLRI
    from yabgp.message.attribute.community import Community
    from yabgp.message.attribute.extcommunity import ExtCommunity
    from yabgp.message.attribute.largecommunity import LargeCommunity
    from yabgp.message.attribute.clusterlist import ClusterList
    from yabgp.message.attribute.aspath import ASPath
    from yabgp.message.attribute.linkstate.linkstate import LinkState
    from yabgp.message.attribute.sr.bgpprefixsid import BGPPrefixSID
    K = {}
    cat = lambda a, b: list(a) + list(b)
    fills = ('zero', 'ones', 'rand')
    K['ipv4-prefixes/Update.parse_prefix_list'] = dict(pool=[refenc.prefix4_bytes(gen.prefix4(rng, n, f)) for n in range(33) for f in fills],
                                                        dec=lambda d: Update.parse_prefix_list(d), join=cat)
    K['ipv4-prefixes/IPv4Unicast.parse'] = dict(pool=[refenc.prefix4_bytes(gen.prefix4(rng, n, f)) for n in range(33) for f in fills],
                                                dec=lambda d: IPv4Unicast.parse(d), join=cat)
    K['ipv4-prefixes-addpath'] = dict(pool=[struct.pack('!I', rng.choice(gen.U32)) + refenc.prefix4_bytes(gen.prefix4(rng, n, 'rand')) for n in range(33)],
                                      dec=lambda d: Update.parse_prefix_list(d, True), join=cat)
    K['ipv6-prefixes'] = dict(pool=[refenc.prefix6_bytes(gen.prefix6(rng, n, f)) for n in range(129) for f in (('rand', 'ones') if n % 8 else fills)],
                              dec=lambda d: IPv6Unicast.parse(d), join=cat)
    for name, fam, cls in (('ipv4-labelled', 'ipv4_lu', IPv4LabeledUnicast), ('ipv6-labelled', 'ipv6_lu', IPv6LabeledUnicast)):
        pool = []
        for n in range(0, 129 if '6' in name else 33):
            r = {'prefix': (gen.prefix6 if '6' in name else gen.prefix4)(rng, n, 'rand'), 'label': gen.label_stack(rng)}
            pool.append(refenc.family_nlri_bytes((2 if '6' in name else 1, 4), [r]))
        K[name] = dict(pool=pool, dec=lambda d, cls=cls: cls.parse(d), join=cat)
    for name, afi, cls in (('vpnv4', 1, IPv4MPLSVPN), ('vpnv6', 2, IPv6MPLSVPN)):
        pool, poolw = [], []
        for n in range(0, 129 if afi == 2 else 33):
            r = {'rd': gen.rd(rng), 'prefix': (gen.prefix6 if afi == 2 else gen.prefix4)(rng, n, 'rand'), 'label': [rng.choice(gen.LABELS)]}
            pool.append(refenc.family_nlri_bytes((afi, 128), [r]))
            poolw.append(refenc.family_nlri_bytes((afi, 128), [r], withdraw=True))
        K[name] = dict(pool=pool, dec=lambda d, cls=cls: cls.parse(d), join=cat)
        K[name + '-withdraw'] = dict(pool=poolw, dec=lambda d, cls=cls: cls.parse(d, iswithdraw=True), join=cat)
    # route types the decoder does not know are skipped: alone they decode to nothing, in a list they must not disturb the others
    evpn_unknown = [bytes([t, len(b)]) + b for t in (0, 6, 7, 8, 11, 255) for b in (b'', b'\x00' * 8, bytes(range(1, 24)))]
    K['evpn-routes'] = dict(pool=[refenc.evpn_route_bytes(gen.evpn_route(rng, t)) for t in (1, 2, 3, 4) for _ in range(40)] + evpn_unknown,
                            dec=lambda d: EVPN.parse(d), join=cat)
    fs_hdr = struct.pack('!HBBB', 1, 133, 0, 0)
    K['flowspec-rules'] = dict(pool=[refenc.flowspec_rule_bytes(gen.flowspec_rule(rng)) for _ in range(120)],
                               dec=lambda d: MpReachNLRI.parse(fs_hdr + d)['nlri'], join=cat)
    # the same rules withdrawn: MP_UNREACH_NLRI has its own copy of the rule loop
    from yabgp.message.attribute.mpunreachnlri import MpUnReachNLRI
    K['flowspec-rules-withdrawn'] = dict(pool=list(K['flowspec-rules']['pool']),
                                         dec=lambda d: MpUnReachNLRI.parse(struct.pack('!HB', 1, 133) + d)['withdraw'], join=cat)
    K['communities'] = dict(pool=[struct.pack('!I', refenc.community_value(gen.community_text(rng))) for _ in range(80)] +
                            [struct.pack('!I', v) for v in sorted(gen.WELL_KNOWN)],
                            dec=lambda d: Community.parse(d), join=cat)
    K['ext-communities'] = dict(pool=[refenc.ext_community_bytes(gen.ext_community(rng, k)) for k in gen.EXT_KINDS for _ in range(8)] +
                                [bytes([0x47, 0x11]) + bytes(6), bytes([0x00, 0x99, 1, 2, 3, 4, 5, 6])],
                                dec=lambda d: ExtCommunity.parse(d), join=cat)
    K['large-communities'] = dict(pool=[struct.pack('!III', *[rng.choice(gen.U32) for _ in range(3)]) for _ in range(80)],
                                  dec=lambda d: LargeCommunity.parse(d), join=cat)
    K['cluster-list'] = dict(pool=[refenc.ip_bytes(gen.ipv4(rng)) for _ in range(60)], dec=lambda d: ClusterList.parse(d), join=cat)
    for asn4 in (False, True):
        pool = []
        for t in (1, 2, 3, 4):
            for n in (0, 1, 2, 5, 64, 127, 255):
                pool.append(refenc.as_path_bytes([[t, [rng.choice(gen.ASN4 if asn4 else gen.ASN2) for _ in range(n)]]], asn4))
        K['as-path-segments-%d' % (4 if asn4 else 2)] = dict(pool=pool, dec=lambda d, a=asn4: ASPath.parse(d, asn4=a), join=cat)
    # OPEN capabilities: concatenated inside one capabilities parameter
    from checks import c14
    cpool = []
    for _ in range(200):
        cs = c14.cap_pool(rng, 65001)
        if cs:
            c = rng.choice(cs)
            if c[0] not in ('as4',):
                cpool.append(refenc.capability_bytes(c14.cap_bytes(c)))
    cpool = sorted(set(cpool))

    def dec_caps(d):
        if len(d) > 250:
            raise ValueError('too long for one parameter')
        body = struct.pack('!BHH', 4, 65001, 90) + b'\x01\x02\x03\x04' + bytes([len(d) + 2]) + bytes([2, len(d)]) + d
        r = Open().parse(body)
        return r['capabilities']

    def join_caps(a, b):
        out = json.loads(json.dumps(a))
        for k, v in json.loads(json.dumps(b)).items():
            if isinstance(v, list) and k in out and k in ('afi_safi', 'add_path'):
                out[k] = out[k] + v
            else:
                out[k] = v
        return out
    K['open-capabilities'] = dict(pool=cpool, dec=dec_caps, join=join_caps)
    # ---- corpus-derived TLV kinds
    items = [b for _, b in corpus.harvest()]
    ls_pool, nlri_pool, desc_pool = set(), set(), {}
    for b in items:
        for off in range(0, min(24, len(b))):
            d = b[off:]
            parts = tlv_split(d)
            if parts and len(d) >= 4:
                try:
                    if all(256 <= int.from_bytes(p[:2], 'big') <= 1300 for p in parts):
                        LinkState.unpack(d, 2)
                        ls_pool.update(parts)
                except Exception:
                    pass
                try:
                    if all(int.from_bytes(p[:2], 'big') in (1, 2, 3, 4, 6) and len(p) >= 13 for p in parts) and BGPLS.parse(d):
                        nlri_pool.update(parts)
                except Exception:
                    pass
    for t in sorted(LinkState.registered_tlvs):
        for n in (0, 1, 2, 3, 4, 6, 7, 8, 11, 12, 16, 20, 24, 32):
            for fill in (b'\x00', b'\x01\x02\x03\x04\x05'):
                ls_pool.add(struct.pack('!HH', t, n) + (fill * 40)[:n])
    ls_ok = []
    for e in sorted(ls_pool):
        try:
            LinkState.unpack(e, 2)
            ls_ok.append(e)
        except Exception:
            pass
    # TLVs the decoder has no class for: type codes next to the supported ones (LS_KNOWN is the harness's own list of the
    # supported codes - a class that answers for a neighbouring code by mistake must not be taken for support), with
    # bodies of 0..17 octets
    ls_unknown = [struct.pack('!HH', 64000, 3) + b'abc', struct.pack('!HH', 9, 0)]
    for t in sorted({t + d for t in LS_KNOWN for d in (-2, -1, 1, 2)} | {0, 1, 257, 999, 65535}):
        if t in LS_KNOWN or not 0 <= t <= 65535:
            continue
        for n in range(18):
            ls_unknown.append(struct.pack('!HH', t, n) + bytes((7 * i + t) & 0xff for i in range(n)))
    K['linkstate-attribute-tlvs'] = dict(pool=ls_ok, dec=lambda d: LinkState.unpack(d, 2).value, join=cat, unknown=ls_unknown)
    K['bgpls-nlris'] = dict(pool=sorted(nlri_pool), dec=lambda d: BGPLS.parse(d), join=cat)
    for e in sorted(nlri_pool):
        t = int.from_bytes(e[:2], 'big')
        parts = tlv_split(e[13:])
        if parts:
            desc_pool.setdefault((t, e[4:13]), set()).update(parts)
    dpool = sorted({(t, h, p) for (t, h), ps in desc_pool.items() for p in ps})
    # descriptors are decoded inside an NLRI of their own type / protocol: element = (type, header, tlv)
    K['bgpls-descriptors'] = dict(pool=dpool, dec=None, join=cat, unknown=[struct.pack('!HH', 999, 2) + b'zz'])
    ps_pool = set()
    for b in items:
        parts = tlv_split(b, 1, 2)
        if parts and len(b) >= 3:
            try:
                BGPPrefixSID.unpack(b)
                ps_pool.update(parts)
            except Exception:
                pass
    ps_pool.add(struct.pack('!BH', 1, 7) + b'\x00' + b'\x00\x00' + struct.pack('!I', 100))
    ps_ok = []
    for e in sorted(ps_pool):
        try:
            BGPPrefixSID.unpack(e)
            ps_ok.append(e)
        except Exception:
            pass
    K['prefix-sid-tlvs'] = dict(pool=ps_ok, dec=lambda d: BGPPrefixSID.unpack(d), join=cat,
                                unknown=[struct.pack('!BH', 200, 2) + b'xy'] + [
                                    struct.pack('!BH', t, n) + bytes((5 * i + t) & 0xff for i in range(n))
                                    for t in (0, 2, 4, 6, 7, 255) for n in range(0, 24, 3)])
    # keep only elements that decode alone; cap pools
    rejected = []
    corpus_kinds = ('linkstate-attribute-tlvs', 'bgpls-nlris', 'bgpls-descriptors', 'prefix-sid-tlvs')
    for name, k in K.items():
        if k['dec'] is None:
            continue
        ok = []
        for e in k['pool']:
            try:
                k['dec'](e)
                ok.append(e)
            except Exception as ex:
                if name not in corpus_kinds:
                    # a reference-encoded single element is well formed by construction
                    rejected.append((name, e.hex(), repr(ex)))
        ok = sorted(set(ok))
        if len(ok) > cap:
            ok = sorted(rng.sample(ok, cap))
        k['pool'] = ok
    K['__rejected__'] = rejected
    return K, BGPLS


# link-state attribute TLV codes the pinned decoder supports (yabgp/message/attribute/linkstate/**)
LS_KNOWN = frozenset([258, 266, 267, 1024, 1025, 1026, 1027, 1028, 1029, 1030, 1031, 1034, 1035, 1036, 1038, 1050, 1088, 1089, 1090,
                      1091, 1092, 1093, 1094, 1095, 1096, 1097, 1098, 1099, 1100, 1101, 1102, 1103, 1106, 1107, 1108, 1110, 1114,
                      1115, 1116, 1117, 1118, 1119, 1120, 1152, 1153, 1154, 1155, 1156, 1158, 1161, 1162, 1170, 1171, 1173, 1250,
                      1251, 1252])


def dec_desc(BGPLS, elems):
    """elements (type, header9, tlv) of one NLRI type/header -> descriptors of the NLRI built from them"""
    t, h = elems[0][0], elems[0][1]
    body = h + b''.join(e[2] for e in elems)
    r = BGPLS.parse(struct.pack('!HH', t, len(body)) + body)
    return r[0]['descriptors']


def plan(tier, seed):
    return [dict(part=i, nparts=16, seed=seed, tier=tier) for i in range(16)]


def run_shard(sh):
    rng = random.Random(1000 + sh['seed'])
    cap = 400 if sh['tier'] == 'quick' else 700
    K, BGPLS = build_kinds(rng, cap)
    rng2 = random.Random(sh['seed'] * 100 + sh['part'])
    res = dict(evaluations=0, counters={}, maxima={}, sets={}, distinct=[], samples=[], violations=[])
    V = {}
    ncase = 0

    def bad(kind, feats, detail, replay):
        V.setdefault((kind, tuple(feats)), dict(kind=kind, features=list(feats), detail=detail, replay=replay))

    def feats_of(name, elems):
        f = ['kind:' + name]
        if name == 'ipv6-prefixes' and len(elems) >= 2 and elems[-1] == b'\x00' and elems[-2] == b'\x00':
            f.append('ipv6-two-trailing-default-routes')
        return f

    def check_tuple(name, k, elems):
        nonlocal ncase
        ncase += 1
        try:
            if k['dec'] is None:
                if len({(e[0], e[1]) for e in elems}) != 1:
                    return
                parts = [dec_desc(BGPLS, [e]) for e in elems]
                whole = dec_desc(BGPLS, list(elems))
            else:
                parts = [k['dec'](e) for e in elems]
                whole = k['dec'](b''.join(elems))
        except Exception as ex:
            hexs = [(e[2] if isinstance(e, tuple) else e).hex() for e in elems]
            bad('concat-raised', feats_of(name, elems), '%s: elements decode alone but their concatenation raised %r: %s' % (name, ex, hexs), dict(kind_name=name, elems=hexs))
            return
        want = parts[0]
        for p in parts[1:]:
            want = k['join'](want, p)
        if _N(whole) != _N(want):
            hexs = [(e[2] if isinstance(e, tuple) else e).hex() for e in elems]
            bad('not-compositional', feats_of(name, elems), '%s: dec(%s) = %s but separate decodings give %s' % (
                name, ' || '.join(hexs)[:300], json.dumps(_N(whole))[:300], json.dumps(_N(want))[:300]), dict(kind_name=name, elems=hexs))

    for name, hx, ex in K.pop('__rejected__'):
        bad('wellformed-element-rejected', ['kind:' + name], '%s: the well-formed single element %s does not decode alone: %s' % (name, hx, ex),
            dict(kind_name=name, elems=[hx]))
    names = sorted(K)
    for ni, name in enumerate(names):
        k = K[name]
        pool = k['pool']
        res['sets'].setdefault('pool_sizes', []).append('%s=%d' % (name, len(pool)))
        if not pool:
            continue
        pairs = [(a, b) for a in pool for b in pool]
        for idx, (a, b) in enumerate(pairs):
            if idx % sh['nparts'] == sh['part']:
                check_tuple(name, k, (a, b))
        for _ in range(200 if sh['tier'] == 'quick' else 10000):
            n = rng2.randint(3, 8)
            check_tuple(name, k, tuple(rng2.choice(pool) for _ in range(n)))
        # unknown TLV between known ones
        unk = k.get('unknown', [])
        if unk:
            for _ in range(max(len(unk), 80) * (3 if sh['tier'] == 'quick' else 30) // max(1, sh['nparts'] // 4)):
                u = rng2.choice(unk)
                a, b = rng2.choice(pool), rng2.choice(pool)
                ncase += 1
                try:
                    if k['dec'] is None:
                        if (a[0], a[1]) != (b[0], b[1]):
                            continue
                        base = dec_desc(BGPLS, [a, b])
                        withu = dec_desc(BGPLS, [a, (a[0], a[1], u), b])
                    else:
                        base = k['dec'](a + b)
                        withu = k['dec'](a + u + b)
                except Exception as ex:
                    bad('unknown-tlv-raised', ['kind:' + name], '%s: inserting unknown TLV %s raised %r' % (name, u.hex(), ex), dict(kind_name=name, unknown=u.hex()))
                    continue
                nb, nu = _N(base), _N(withu)
                pos = len(_N(k['dec'](a) if k['dec'] else dec_desc(BGPLS, [a])))
                if len(nu) != len(nb) + 1 or nu[:pos] + nu[pos + 1:] != nb:
                    bad('unknown-tlv-disturbs', ['kind:' + name], '%s: with unknown TLV %s between: %s, without: %s' % (
                        name, u.hex(), json.dumps(nu)[:300], json.dumps(nb)[:300]), dict(kind_name=name, unknown=u.hex()))
    # ---- attribute permutations of UPDATEs
    from yabgp.message.update import Update
    nperm = 0
    for _ in range(400 if sh['tier'] == 'quick' else 20000):
        asn4 = rng2.random() < 0.5
        at = gen.std_attrs(rng2, asn4)
        if rng2.random() < 0.5:
            at[14] = gen.mp_value(rng2, rng2.choice(['ipv6', 'vpnv4', 'evpn', 'flowspec']), nmax=3)
        if len(at) < 2:
            continue
        codes = sorted(at)
        enc = {c: refenc.attr(c, refenc.std_attr_value(c, at[c], asn4)) for c in codes}
        if not asn4 and rng2.random() < 0.6:
            # a 2-octet session: AS4_PATH / AS4_AGGREGATOR (always 4-octet encoded) next to the 2-octet AS_PATH / AGGREGATOR
            if rng2.random() < 0.8:
                enc[17] = refenc.attr(17, refenc.as_path_bytes([[2, [rng2.choice(gen.ASN4) for _ in range(rng2.randint(1, 4))]]], True))
            if rng2.random() < 0.5:
                enc[18] = refenc.attr(18, struct.pack('!I', rng2.choice(gen.ASN4)) + refenc.ip_bytes(gen.ipv4(rng2)))
            for c in (2, 7):
                if c not in enc and rng2.random() < 0.7:
                    v = [[2, [rng2.choice(gen.ASN2) for _ in range(rng2.randint(1, 3))]]] if c == 2 else None
                    enc[c] = refenc.attr(2, refenc.as_path_bytes(v, False)) if c == 2 else \
                        refenc.attr(7, struct.pack('!H', rng2.choice(gen.ASN2)) + refenc.ip_bytes(gen.ipv4(rng2)))
        if rng2.random() < 0.3:
            uc = rng2.choice([99, 200, 254])
            enc[uc] = refenc.attr(uc, bytes(rng2.randrange(256) for _ in range(rng2.randint(0, 12))))
        codes = sorted(enc)
        if len(codes) > 7:
            codes = sorted(rng2.sample(codes, 7))
        try:
            base = _N(Update.parse_attributes(b''.join(enc[c] for c in codes), asn4))
        except Exception:
            continue
        perms = list(itertools.permutations(codes)) if len(codes) <= 5 else [tuple(rng2.sample(codes, len(codes))) for _ in range(40)]
        for pm in perms:
            nperm += 1
            try:
                got = _N(Update.parse_attributes(b''.join(enc[c] for c in pm), asn4))
            except Exception as ex:
                bad('attribute-order', ['raised'], 'attribute order %s raised %r (sorted order decodes)' % (pm, ex), dict(attrs=_N(at), order=list(pm), asn4=asn4))
                continue
            if got != base:
                diff = [c for c in set(got) | set(base) if got.get(c) != base.get(c)]
                bad('attribute-order', ['differs:' + ','.join(sorted(diff))], 'attribute order %s changes the decoding of %s' % (pm, diff),
                    dict(attrs=_N(at), order=list(pm), asn4=asn4))
    # link-state: attribute 29 is decoded with the protocol id found in the BGP-LS NLRI of attribute 14, wherever 14 stands
    ls_elems = K['linkstate-attribute-tlvs']['pool']
    dep = [e for e in ls_elems if int.from_bytes(e[:2], 'big') in (1099, 1100, 1158, 1162, 1038)]
    for nl in K['bgpls-nlris']['pool']:
        for _ in range(6 if sh['tier'] == 'quick' else 60):
            tl = [rng2.choice(dep)] if dep and rng2.random() < 0.8 else []
            tl += [rng2.choice(ls_elems) for _ in range(rng2.randint(0, 2))]
            rng2.shuffle(tl)
            enc = {14: refenc.attr(14, struct.pack('!HBB', 16388, 71, 4) + b'\x0a\x00\x00\x01\x00' + nl),
                   29: refenc.attr(29, b''.join(tl)), 1: refenc.attr(1, b'\x00'), 2: refenc.attr(2, b''), 5: refenc.attr(5, b'\x00\x00\x00\x64')}
            codes = sorted(enc)
            try:
                base = _N(Update.parse_attributes(b''.join(enc[c] for c in codes), True))
            except Exception:
                continue
            for pm in itertools.permutations(codes):
                nperm += 1
                try:
                    got = _N(Update.parse_attributes(b''.join(enc[c] for c in pm), True))
                except Exception as ex:
                    bad('attribute-order', ['raised', 'bgp-ls'], 'attribute order %s raised %r (sorted order decodes)' % (pm, ex), dict(order=list(pm)))
                    continue
                if got != base:
                    diff = [c for c in set(got) | set(base) if got.get(c) != base.get(c)]
                    bad('attribute-order', ['differs:' + ','.join(sorted(diff)), 'bgp-ls'], 'attribute order %s changes the decoding of %s: %s vs %s' % (
                        pm, diff, json.dumps({c: got.get(c) for c in diff})[:300], json.dumps({c: base.get(c) for c in diff})[:300]), dict(order=list(pm)))
    res['evaluations'] = ncase + nperm
    res['counters'] = dict(tuples_checked=ncase, attribute_permutations=nperm)
    res['distinct'] = ['%d|%d' % (sh['part'], i) for i in range(ncase + nperm)]
    res['violations'] = list(V.values())
    res['samples'] = [dict(kind=n, element=(K[n]['pool'][0][2] if isinstance(K[n]['pool'][0], tuple) else K[n]['pool'][0]).hex()) for n in names[:3] if K[n]['pool']]
    return res


def floors(m, tier):
    unmet = []
    sizes = dict(x.split('=') for x in m['sets'].get('pool_sizes', []))
    for k, v in sizes.items():
        if int(v) < 2:
            unmet.append('pool %s has %s elements' % (k, v))
    if m['counters'].get('attribute_permutations', 0) < 500:
        unmet.append('fewer than 500 attribute permutations')
    return unmet[:6]


def replay(rep):
    return []
