"""C12  At most one TCP connection or connection attempt to the peer at any time."""
import random

from vlib import budget

from vlib import session as S
from vlib.monitors import LedgerMonitor

PROPERTY = 'C12'
LEVEL = 'exploration'
TECHNIQUE = 'runtime monitoring: connection-ledger invariant hooked on connectTCP/transport.write of the simulated reactor, small-scope event exploration + random walks'
RULE = ('event sequences from boot over {ACCEPT/REFUSE of any pending attempt at any later time, peer messages on any live '
        'connection, peer close/reset, TICK with forked same-instant orders, STOP, START}; executed against the real '
        'fsm/protocol/factory on the simulated reactor; a case = one executed sequence, distinct = distinct abstract world '
        'fingerprints reached (FSM state, timers with remaining time, connector/transport states, buffers, capabilities); '
        'after every new state 300 s of silent-peer time are appended and leaked connections looked for; close completion at the same instant and as a separate later event; searches from boot and from 6 prefix sessions (pending boot timer, stop / drop with the close still pending, restart on top of it)')
ASSUMPTIONS = ['simulated Twisted reactor/connector/transport (verif/shims) reproduces Twisted semantics listed in DESIGN.md 2.1',
               'REST requests are atomic events between reactor callbacks; in every second random walk 30 % of the events leave their instant unfinished (NAME~) and an operator request may land inside it (DESIGN.md 15.3)']
SHARD_TIMEOUT = {'quick': 600, 'thorough': 1500}

CFGS = {
    'quick': [10, 30, 40],
    'thorough': [10, 29, 30, 31, 40],
}
DEPTH = {'quick': (3, 8), 'thorough': (4, 11)}
PARTS = {'quick': 4, 'thorough': 3}
WALKS = {'quick': (240, 120), 'thorough': (6000, 400)}
BUDGET = {'quick': 300, 'thorough': 600}

# prefix-seeded exploration (states a search from boot reaches only at depth 8+): a session under a pending boot
# timer, a stop / drop whose close has not completed yet, a restart on top of it
PREFIXES = [
    ['START', 'ACCEPT', 'OPEN', 'KA'],
    ['TICK', 'ACCEPT', 'OPEN', 'KA', 'STOP'],
    ['TICK', 'ACCEPT', 'OPEN', 'KA', 'NOTI_CEASE'],
    ['TICK', 'ACCEPT', 'OPEN', 'KA', 'STOP', 'START'],
    ['TICK', 'ACCEPT', 'OPEN', 'BADMARK', 'START'],
    ['START', 'STOP', 'START'],
]
PREFIX_DEPTH = {'quick': 5, 'thorough': 7}


def cfg_for(retry, defer=False, md5=None):
    c = dict(time_opts={'connect_retry_time': retry})
    if defer:
        c['defer_close'] = True
    if md5:
        # TCP MD5 signature configured: the option is set on the connecting socket; 'refused' = the kernel rejects it
        c['bgp_opts'] = {'md5': 'k' * 100 if md5 == 'refused' else 'secret'}
        c['setsockopt_fails'] = md5 == 'refused'
    return c


def plan(tier, seed):
    shards = []
    d0, d = DEPTH[tier]
    for retry in CFGS[tier]:
        for p in range(PARTS[tier]):
            shards.append(dict(kind='bfs', retry=retry, part=p, nparts=PARTS[tier], d0=d0, depth=d, budget=BUDGET[tier]))
        if retry in (10, 30):
            for p in range(PARTS[tier]):
                shards.append(dict(kind='bfs', retry=retry, part=p, nparts=PARTS[tier], d0=d0, depth=d, budget=BUDGET[tier], defer=True))
    for md5 in ('set', 'refused'):
        for retry in (10, 30):
            shards.append(dict(kind='bfs', retry=retry, part=0, nparts=1, d0=d0, depth=d - 2, budget=BUDGET[tier], md5=md5))
    for i, pre in enumerate(PREFIXES):
        for retry in (10, 30):
            shards.append(dict(kind='bfs', retry=retry, part=0, nparts=1, d0=1, depth=PREFIX_DEPTH[tier], budget=BUDGET[tier],
                               defer=bool((i + retry // 10) % 2 == 0) or tier == 'thorough', start=[pre]))
    n, length = WALKS[tier]
    nshard = 4 if tier == 'quick' else 16
    for i in range(nshard):
        shards.append(dict(kind='walk', seed=seed * 1000 + i, n=n // nshard + 1, length=length,
                           retry=CFGS['thorough'][i % 5], defer=bool(i % 2)))
        shards.append(dict(kind='walk', seed=seed * 1000 + 500 + i, n=n // nshard + 1, length=length, fuzz=150 if tier == 'quick' else 1500,
                           retry=CFGS['thorough'][i % 5], defer=bool(i % 2)))
    return shards


def run_shard(sh):
    res = dict(evaluations=0, counters={}, maxima={}, sets={}, distinct=[], samples=[], violations=[])
    cfg = cfg_for(sh['retry'], sh.get('defer', False), sh.get('md5'))
    stats = dict(max_live=0, attempts=0, late=0, finals=0, writes=0)

    def note(r):
        m = r.monitors[0]
        stats['max_live'] = max(stats['max_live'], m.max_live)
        stats['attempts'] += m.attempts
        stats['late'] += m.late_accepts
        stats['writes'] += m.writes

    if sh['kind'] == 'bfs':
        viol = {}

        def on_state(r, seq):
            m = r.monitors[0]
            m.final()
            stats['finals'] += 1
            for v in r.collect():
                viol.setdefault((v['kind'], tuple(v['features'])), v)

        ex = S.bfs_shard(cfg, [LedgerMonitor], S.ALPHABET_SMALL, sh['d0'], sh['depth'], sh['part'], sh['nparts'],
                         multi=True, on_state=on_state, time_budget=sh['budget'], on_run=note, start=sh.get('start'))
        viol.update({k: v for k, v in ex.viol.items() if k not in viol})
        res['evaluations'] = ex.execs
        res['distinct'] = ['%s|%s|%d' % (sh['retry'], sh.get('defer', False), hash(k)) for k in ex.seen]
        res['counters'] = dict(executed_sequences=ex.execs, executed_events=ex.events, states=len(ex.seen),
                               same_instant_choice_points=ex.choice_points, silent_300s_continuations=stats['finals'],
                               connect_attempts_observed=stats['attempts'], late_accepts=stats['late'],
                               writes_observed=stats['writes'], truncated_shards=int(ex.truncated))
        if sh.get('start'):
            res['counters']['prefix_seeded_sequences'] = ex.execs
        res['maxima'] = dict(max_simultaneous_live_connectors=stats['max_live'], depth_reached=ex.depth_reached)
        res['sets'] = dict(connect_retry_times=[sh['retry']], close_completion=['deferred (separate event)' if sh.get('defer') else 'same instant'])
        res['violations'] = list(viol.values())
        if sh['part'] == 0:
            res['samples'] = [dict(retry=sh['retry'], events=list(s)) for s in list(ex.seen.values())[-2:]]
    else:
        rng = random.Random(sh['seed'])
        viol = {}
        alpha = S.ALPHABET_C01
        if sh.get('fuzz'):
            # hostile well-framed messages (mutated unit-test corpus) among the peer's messages
            alpha = ['OPEN', 'KA', 'OPEN_h9', 'NOTI_CEASE', 'BADLEN', 'UPD1'] + S.fuzz_alphabet(rng, sh['fuzz']) + S.open_alphabet(rng, max(10, sh['fuzz'] // 5)) + S.noti_alphabet(rng, max(10, sh['fuzz'] // 8))
        for i in range(sh['n']):
            if budget.expired():
                break
            r = S.random_walk(cfg, [LedgerMonitor], alpha, rng, sh['length'], multi=True,
                              weights={'TICK': 6, 'ACCEPT': 3, 'REFUSE': 2, 'STOP': 0.7, 'START': 1.5},
                              rest=('Q_UPD', 'Q_NOTI') if i % 3 == 0 else (), lazy=0.3 if i % 2 else 0.0)
            r.monitors[0].final()
            note(r)
            res['evaluations'] += 1
            res['distinct'].append('walk|%d|%d' % (sh['seed'], i))
            for v in r.collect():
                viol.setdefault((v['kind'], tuple(v['features'])), v)
            if i == 0:
                res['samples'].append(dict(retry=sh['retry'], walk=r.seq[:40]))
        res['counters'] = dict(walks=res['evaluations'], connect_attempts_observed=stats['attempts'], late_accepts=stats['late'],
                               writes_observed=stats['writes'], fuzzed_frames_in_alphabet=sh.get('fuzz', 0))
        res['maxima'] = dict(max_simultaneous_live_connectors=stats['max_live'])
        res['violations'] = list(viol.values())
    return res


def floors(m, tier):
    unmet = []
    c = m['counters']
    if c.get('connect_attempts_observed', 0) < 100:
        unmet.append('fewer than 100 connect attempts observed')
    if c.get('late_accepts', 0) < 10:
        unmet.append('fewer than 10 late accepts exercised')
    if c.get('writes_observed', 0) < 100:
        unmet.append('fewer than 100 writes observed')
    if tier == 'quick' and m['counters'].get('truncated_shards', 0):
        # the breadth-first part is meant to complete in the quick tier: a search cut by its time box is not 'held'
        unmet = list(unmet) + ['%d breadth-first shard(s) were cut by their time box' % m['counters']['truncated_shards']]
    return unmet


def replay(rep):
    r = S.run_seq(rep['cfg'], rep['events'], [LedgerMonitor], fuzz=rep.get('fuzz'))
    r.monitors[0].final()
    return r.collect()
