"""C04  Byte-stream framing is independent of TCP segmentation and always terminates."""
import json
import random
import struct

from vlib import session as S
from vlib import wire
from vlib import budget
from vlib.world import World, peer_open, KEEPALIVE, frame, reactor
from vlib.meter import METER

PROPERTY = 'C04'
LEVEL = 'exploration'
TECHNIQUE = 'runtime monitoring: segmentation metamorphism of BGP.dataReceived against a reference RFC 4271 deframer, handler-callback recorder + wire tap, executed-line work meter (sys.monitoring) per dataReceived call'
RULE = ('peer byte streams built from valid and invalid messages (every length-field value 0..65535 on KEEPALIVE/UPDATE-shaped frames, '
        'every type octet, each marker octet corrupted, truncated tails at every offset, 1-6 frame streams from a message pool and from a pool of well-framed frames with mutated bodies), '
        'each delivered frame-by-frame (as cut by the reference deframer) and then re-delivered to a fresh session in the same state '
        'as one chunk, every 1-cut, 2-cuts, byte-at-a-time and random k-cuts; reports (names + payloads), bytes written, close and '
        'reported state must agree; per-frame oracle: <=1 report of the matching kind, framing violations answered by NOTIFICATION(1,subcode)+close; '
        'distinct = distinct (stream, state) x segmentation classes')
ASSUMPTIONS = ['simulated transport delivers no data after loseConnection (Twisted stops reading)', 'reference deframer vlib/wire.py',
               'line budget per dataReceived: 5000 + 400*(octets buffered + chunk) + 3000*frames completed']
SHARD_TIMEOUT = {'quick': 300, 'thorough': 1800}
STATES = ['OPENSENT', 'OPENCONFIRM', 'ESTABLISHED']
KIND = {1: ('open_received',), 2: ('update_received', 'on_update_error'), 3: ('notification_received',),
        4: ('keepalive_received',), 5: ('route_refresh_received',), 128: ('route_refresh_received',)}
UPD_BAD = frame(2, b'\x00\x00\x00\x04\x40\x01\x01\x07')
POOL = [peer_open(), KEEPALIVE, S.UPD_EMPTY, S.UPD_ROUTE, UPD_BAD, S.MSGS['NOTI_CEASE'][0], S.MSGS['RR'][0],
        S.MSGS['RR_orf'][0], frame(128, b'\x00\x01\x00\x01'), frame(2, b'\x00\x00\x00\x00' + b'\x18\x0a\x00\x01' * 40)]
_metered = [False]


def update_lengths_in_range(body):
    """both length fields of an UPDATE body fit the body (then C11 promises a result object, hence a report)"""
    if len(body) < 4:
        return False
    wl = struct.unpack('!H', body[:2])[0]
    if 2 + wl + 2 > len(body):
        return False
    al = struct.unpack('!H', body[2 + wl:4 + wl])[0]
    return 4 + wl + al <= len(body)


def world_in(state):
    w = World()
    w.tick()
    tr = w.accept()
    if state in ('OPENCONFIRM', 'ESTABLISHED'):
        w.deliver(peer_open(), tr)
    if state == 'ESTABLISHED':
        w.deliver(KEEPALIVE, tr)
    assert w.state_direct() == state, (w.state_direct(), state)
    return w, tr


def norm(x):
    return json.loads(json.dumps(x, default=repr, sort_keys=True))


def deliver(w, tr, chunks, stats):
    """Deliver chunks (stopping when the transport no longer reads); returns per-chunk deltas."""
    if not _metered[0]:
        METER.install()
        _metered[0] = True
    out = []
    for ch in chunks:
        n_ev, n_wr = len(w.handler.ev), len(tr.written)
        if not tr.connected or tr.disconnecting:
            out.append(None)
            continue
        pending = len(tr.protocol._receive_buffer) + len(ch)
        nframes = len(wire.deframe(tr.protocol._receive_buffer + ch)[0]) if pending < 8192 and len(ch) > 1 else 1
        budget = 5000 + 400 * pending + 3000 * nframes
        res, val, lines = METER.run(tr.sim_deliver, ch, budget=budget)
        stats['calls'] += 1
        stats['max_lines'] = max(stats['max_lines'], lines)
        stats['max_ratio'] = max(stats['max_ratio'], lines / float(budget))
        if res == 'budget':
            out.append('BUDGET')
            return out
        w.settle()
        reports = [e for e in w.handler.ev[n_ev:] if e[0] in S.World.__module__ and False] or \
                  [(e[0],) + tuple(e[2:]) for e in w.handler.ev[n_ev:] if e[0] in (
                      'update_received', 'on_update_error', 'open_received', 'notification_received',
                      'route_refresh_received', 'keepalive_received')]
        out.append(dict(reports=norm(reports), writes=[d.hex() for _, d in tr.written[n_wr:]],
                        closed=bool(tr.disconnecting or not tr.connected)))
    return out


def totals(w, tr, deltas):
    reps, wr = [], []
    for d in deltas:
        if d and d != 'BUDGET':
            reps += d['reports']
            wr += d['writes']
    return dict(reports=reps, writes=''.join(wr), closed=bool(tr.disconnecting or not tr.connected), state=w.rest_state())


def segmentations(n, rng, full):
    """cut lists for a stream of n bytes"""
    segs = [('one', [])]
    segs.append(('bytewise', list(range(1, n))))
    if n <= 64 or (full and n <= 320):
        cuts1 = list(range(1, n))
    else:
        # every cut inside the first two headers, then a sample of the rest
        head = list(range(1, min(n, 45)))
        cuts1 = sorted(set(head if full else []) | set(rng.sample(range(1, n), 120 if full else 40)))
    for c in cuts1:
        segs.append(('1cut', [c]))
    if n >= 3:
        if full and n <= 120:
            for a in range(1, n):
                for b in range(a + 1, n):
                    segs.append(('2cut', [a, b]))
        else:
            for _ in range(30 if full else 6):
                a, b = sorted(rng.sample(range(1, n), 2))
                segs.append(('2cut', [a, b]))
        for _ in range(50 if full else 8):
            k = rng.randint(1, min(8, n - 1))
            segs.append(('kcut', sorted(rng.sample(range(1, n), k))))
    return segs


def chunks_of(stream, cuts):
    out, last = [], 0
    for c in cuts:
        out.append(stream[last:c])
        last = c
    out.append(stream[last:])
    return out


def check_stream(stream, state, rng, full, stats, V, segs_mode='all', hostile=False):
    items, rest = wire.deframe(stream)
    ref_chunks = [it[3] for it in items if it[0] == 'frame']
    consumed = sum(len(c) for c in ref_chunks)
    tail = stream[consumed:]
    if tail:
        ref_chunks.append(tail)
    err = items[-1] if items and items[-1][0] == 'error' else None
    nfr = len([it for it in items if it[0] == 'frame'])
    feats = ['state:' + state]
    w, tr = world_in(state)
    dA = deliver(w, tr, ref_chunks, stats)
    if 'BUDGET' in dA:
        V.append(dict(kind='work-budget', features=feats, detail='a dataReceived call exceeded its line budget (frame-wise delivery)',
                      replay=dict(stream=stream.hex(), state=state, cuts=None)))
        return
    # ---- per-frame oracle on the reference segmentation
    closed_at = None
    for j, d in enumerate(dA):
        if d is None:
            continue
        is_frame = j < nfr
        if is_frame:
            typ = items[j][1]
            if len(d['reports']) > 1 or any(r[0] not in KIND[typ] for r in d['reports']):
                V.append(dict(kind='frame-report-mismatch', features=feats + ['type:%d' % typ],
                              detail='frame %d (type %d, %d octets) produced reports %s' % (j, typ, len(items[j][3]), [r[0] for r in d['reports']]),
                              replay=dict(stream=stream.hex(), state=state, cuts=None)))
            ws = [wire.summarize(f) for f in wire.frames_of_writes([(0, bytes.fromhex(x)) for x in d['writes']])]
            flen = len(items[j][3])
            legal_len = (flen == 19) if typ == 4 else flen >= wire.MIN_LEN[typ]
            for x in ws:
                if x[0] == 3 and x[1] == 1 and (x[2] in (1, 3) or legal_len):
                    V.append(dict(kind='false-framing-error', features=feats + ['type:%d' % typ, 'subcode:%s' % x[2]],
                                  detail='frame %d (type %d, %d octets) is well framed but was answered with Message Header Error subcode %s'
                                  % (j, typ, flen, x[2]), replay=dict(stream=stream.hex(), state=state, cuts=None)))
            if not hostile and not d['closed'] and typ in (2, 3, 4, 5, 128) and len(d['reports']) != 1 and len(items[j][3]) >= wire.MIN_LEN[typ] \
                    and (typ != 2 or update_lengths_in_range(items[j][2])):
                V.append(dict(kind='frame-lost', features=feats + ['type:%d' % typ],
                              detail='frame %d (type %d, %d octets) was accepted without a close but produced %d reports' % (
                                  j, typ, len(items[j][3]), len(d['reports'])),
                              replay=dict(stream=stream.hex(), state=state, cuts=None)))
        else:
            # the tail: a framing violation or an incomplete frame
            if d['reports']:
                V.append(dict(kind='tail-reported', features=feats, detail='the %s tail produced reports %s' % (
                    'violating' if err else 'incomplete', [r[0] for r in d['reports']]),
                    replay=dict(stream=stream.hex(), state=state, cuts=None)))
            if err:
                fr = wire.frames_of_writes([(0, bytes.fromhex(x)) for x in d['writes']])
                s = [wire.summarize(f) for f in fr]
                stats['violations_seen'].add('%s/%d' % (state, err[1]))
                if len(s) != 1 or s[0][:3] != (3, 1, err[1]) or not d['closed']:
                    V.append(dict(kind='framing-violation-reaction', features=feats + ['subcode:%d' % err[1]],
                                  detail='framing violation (subcode %d) answered with %s close=%s' % (err[1], s, d['closed']),
                                  replay=dict(stream=stream.hex(), state=state, cuts=None)))
            elif d['writes'] or d['closed']:
                V.append(dict(kind='incomplete-tail-reaction', features=feats, detail='incomplete tail of %d octets made the agent write %s / close %s'
                              % (len(tail), d['writes'], d['closed']), replay=dict(stream=stream.hex(), state=state, cuts=None)))
        if d['closed'] and closed_at is None:
            closed_at = j
    A = totals(w, tr, dA)
    stats['streams'] += 1
    # ---- metamorphic: every other segmentation must give the same totals
    n = len(stream)
    if segs_mode == 'all':
        segs = segmentations(n, rng, full)
    elif err and nfr == 0 and not full:
        # the stream starts with a framing violation: one chunk and a split inside the header
        segs = [('one', []), ('header-split', sorted({rng.randint(1, 18), rng.randint(19, n - 1)}))]
    else:
        segs = [('one', [])]
        segs.append(('bytewise', list(range(1, n))) if n <= 128 else ('64-octet pieces', list(range(64, n, 64))))
        if n > 40:
            segs.append(('header-split', [rng.randint(1, 18), rng.randint(19, 40)]))
        segs += [('kcut', sorted(rng.sample(range(1, n), min(3, n - 1)))) for _ in range(2 if n > 2 else 0)]
    for name, cuts in segs:
        w2, tr2 = world_in(state)
        dB = deliver(w2, tr2, chunks_of(stream, cuts), stats)
        stats['segmentations'] += 1
        stats['seg_kinds'].add(name)
        if 'BUDGET' in dB:
            V.append(dict(kind='work-budget', features=feats, detail='a dataReceived call exceeded its line budget (%s)' % name,
                          replay=dict(stream=stream.hex(), state=state, cuts=cuts)))
            return
        B = totals(w2, tr2, dB)
        if B != A:
            diff = [k for k in A if A[k] != B[k]]
            V.append(dict(kind='segmentation-dependence', features=feats + ['differs:' + ','.join(diff)],
                          detail='stream of %d octets (%d frames%s): frame-wise delivery and %s %s differ in %s: %s vs %s' % (
                              n, nfr, ', then violation %s' % (err[1],) if err else '', name, cuts[:6], diff,
                              str({k: A[k] for k in diff})[:300], str({k: B[k] for k in diff})[:300]),
                          replay=dict(stream=stream.hex(), state=state, cuts=cuts)))
            return


def shaped(length, typ):
    """a stream whose first header carries `length`, padded so that a legal length is exactly one frame"""
    body_len = max(0, min(length, 4096) - 19)
    body = (b'\x00\x00\x00\x00' + b'\x00' * body_len)[:body_len] if typ == 2 else b'\x00' * body_len
    return wire.MARKER + struct.pack('!HB', length, typ) + body


def gen_streams(kind, lo, hi, rng):
    if kind == 'length':
        # lo = residue, hi = modulus: lengths are interleaved over the shards (legal lengths are the costly ones)
        for L in range(lo, 65536, hi):
            for typ in (4, 2):
                yield shaped(L, typ) + KEEPALIVE + S.UPD_EMPTY
    elif kind == 'lenb':
        for L in (0, 1, 18, 19, 20, 22, 23, 24, 29, 4095, 4096, 4097, 4098, 32768, 65535):
            for typ in (4, 2, 1, 3, 5, 0, 6, 9, 127, 255):       # unknown types too: which violation is reported when both apply
                yield shaped(L, typ) + KEEPALIVE + S.UPD_EMPTY
                yield KEEPALIVE + shaped(L, typ) + KEEPALIVE
    elif kind == 'type':
        for t in range(lo, hi):
            for body in (b'', b'\x00\x01\x00\x01'):
                yield frame(t, body) + KEEPALIVE
    elif kind == 'marker':
        base = S.UPD_ROUTE
        for i in range(16):
            for pre in (b'', KEEPALIVE):
                yield pre + base[:i] + b'\xfe' + base[i + 1:] + KEEPALIVE
    elif kind == 'trunc':
        base = KEEPALIVE + S.UPD_ROUTE + S.MSGS['RR'][0]
        for i in range(1, len(base)):
            yield base[:i]
    elif kind == 'burst':
        # thousands of small messages arriving in one read (a peer that was blocked and catches up)
        for n_ in (1200, 3500):
            yield KEEPALIVE * n_
            yield (KEEPALIVE + S.UPD_EMPTY) * (n_ // 2) + S.UPD_ROUTE
    elif kind in ('pool', 'fuzzpool'):
        pool = POOL
        if kind == 'fuzzpool':
            # well-framed frames with hostile bodies (mutated unit-test corpus) between good ones
            from vlib import corpus, mutate
            msgs = corpus.messages()
            pool = POOL[:4] + [frame(t, mutate.random_mutation(b, rng)[:600]) for t, b in (rng.choice(msgs) for _ in range(60))]
        for _ in range(lo, hi):
            k = rng.randint(1, 6)
            s = b''.join(rng.choice(pool) for _ in range(k))
            r = rng.random()
            if r < 0.25:
                s = s[:rng.randint(1, len(s))]
            elif r < 0.4:
                i = rng.randrange(len(s))
                s = s[:i] + bytes([s[i] ^ (1 << rng.randrange(8))]) + s[i + 1:]
            elif r < 0.5:
                s += rng.choice([S.MSGS['BADMARK'][0], S.MSGS['BADLEN'][0], S.MSGS['BADTYPE'][0], S.MSGS['BADLEN4097'][0]]) + KEEPALIVE
            yield s


def plan(tier, seed):
    shards = []
    full = tier == 'thorough'
    nl = 32 if full else 16
    for i in range(nl):
        shards.append(dict(kind='length', lo=i, hi=nl, states=STATES if full else ['ESTABLISHED'], full=False, seed=seed + i,
                           segs='few'))
    shards.append(dict(kind='type', lo=0, hi=256, states=STATES, full=False, seed=seed, segs='few'))
    for st in STATES:
        shards.append(dict(kind='lenb', lo=0, hi=0, states=[st], full=False, seed=seed, segs='few'))
    shards.append(dict(kind='marker', lo=0, hi=0, states=STATES, full=full, seed=seed, segs='all'))
    shards.append(dict(kind='trunc', lo=0, hi=0, states=['ESTABLISHED'], full=False, seed=seed, segs='few'))
    shards.append(dict(kind='burst', lo=0, hi=0, states=['ESTABLISHED'], full=False, seed=seed, segs='few'))
    npool = 16
    per = 20 if not full else 150
    for i in range(npool):
        shards.append(dict(kind='pool', lo=0, hi=per, states=STATES, full=full, seed=seed * 100 + i, segs='all'))
    for i in range(8):
        shards.append(dict(kind='fuzzpool', lo=0, hi=per, states=STATES, full=full, seed=seed * 100 + 50 + i, segs='all'))
    return shards


def run_shard(sh):
    rng = random.Random(sh['seed'])
    stats = dict(calls=0, max_lines=0, max_ratio=0.0, streams=0, segmentations=0, seg_kinds=set(), violations_seen=set())
    V = []
    res = dict(evaluations=0, counters={}, maxima={}, sets={}, distinct=[], samples=[], violations=[])
    n = 0
    for stream in gen_streams(sh['kind'], sh['lo'], sh['hi'], rng):
        if sh['kind'] in ('pool', 'fuzzpool') and budget.expired():
            break
        for st in sh['states']:
            check_stream(stream, st, rng, sh['full'], stats, V, sh['segs'], hostile=sh['kind'] == 'fuzzpool')
            n += 1
            if len(res['distinct']) < 200000:
                res['distinct'].append('%s|%s|%d' % (sh['kind'], st, hash(stream)))
        if n <= 3 and sh['kind'] in ('pool', 'marker', 'fuzzpool'):
            res['samples'].append(dict(kind=sh['kind'], stream=stream.hex()[:200], states=sh['states']))
    seen = {}
    for v in V:
        v['replay']['hostile'] = sh['kind'] == 'fuzzpool'
        seen.setdefault((v['kind'], tuple(v['features'])), v)
    res['violations'] = list(seen.values())
    res['evaluations'] = stats['segmentations'] + stats['streams']
    res['counters'] = dict(streams_x_states=stats['streams'], segmentations=stats['segmentations'], dataReceived_calls=stats['calls'])
    res['counters']['streams_' + sh['kind']] = stats['streams']
    res['maxima'] = dict(max_lines_per_call=stats['max_lines'], max_lines_over_budget=round(stats['max_ratio'], 4))
    res['sets'] = dict(segmentation_kinds=sorted(stats['seg_kinds']), violation_kind_x_state=sorted(stats['violations_seen']))
    return res


def floors(m, tier):
    unmet = []
    want = {'%s/%d' % (s, k) for s in STATES for k in (1, 2, 3)}
    have = set(m['sets'].get('violation_kind_x_state', []))
    if want - have:
        unmet.append('framing violation kinds never exercised: %s' % sorted(want - have))
    if m['counters'].get('streams_length', 0) < 2 * 65536:
        unmet.append('length-field space not covered (%d)' % m['counters'].get('streams_length', 0))
    if m['counters'].get('dataReceived_calls', 0) < 100000:
        unmet.append('fewer than 1e5 dataReceived calls')
    return unmet


def replay(rep):
    stats = dict(calls=0, max_lines=0, max_ratio=0.0, streams=0, segmentations=0, seg_kinds=set(), violations_seen=set())
    V = []
    check_stream(bytes.fromhex(rep['stream']), rep['state'], random.Random(0), True, stats, V, hostile=bool(rep.get('hostile')))
    return V
