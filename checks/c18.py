"""C18  Message statistics equal what actually crossed the wire."""
import random

from vlib import budget

from vlib import session as S
from vlib.monitors import StatMonitor
from vlib import corpus, mutate
from vlib.world import frame

PROPERTY = 'C18'
LEVEL = 'exploration'
TECHNIQUE = 'runtime monitoring: conservation check of the REST statistic endpoint against the transport write log and the delivered stream (reference deframer) after every event'
RULE = ('the C01 event alphabet (single-connection regime) plus REST sends (update, withdraw, route-refresh, bin_update, and requests the agent refuses: route-refresh for families the peer did not advertise, unencodable update, update without attributes, bad hex), explored '
        'breadth-first with fingerprint de-duplication, plus random walks; after EVERY event the statistic endpoint is compared with '
        'a count of frames by type in the write log of the connection it reports on and in the stream delivered to it '
        '(frames >= the type minimum length); distinct = distinct abstract world fingerprints')
ASSUMPTIONS = ['simulated Twisted reactor/transport (verif/shims)', 'reference deframer vlib/wire.py',
               'events of every second walk may leave their instant unfinished (NAME~); while a write handed to the reactor thread is still queued the counters are not judged (counted, not yet written: a transient of correct code)',
               'application requests through the handler queue (Q_UPD, Q_WD, Q_NOTI) are part of the alphabet',
               'frames completed in the same chunk after the one on which the agent closed: receive side of that connection not judged']
SHARD_TIMEOUT = {'quick': 600, 'thorough': 1500}
DEPTH = {'quick': (3, 6), 'thorough': (4, 8)}
PARTS = {'quick': 12, 'thorough': 15}
WALKS = {'quick': (320, 150), 'thorough': (8000, 400)}
BUDGET = {'quick': 300, 'thorough': 700}
REST = ('R_UPD', 'R_WD', 'R_RR', 'R_BIN', 'R_RR6', 'R_RRVPN', 'R_UPDBAD', 'R_UPDNOATTR', 'R_BINBAD', 'R_UPDUNKATTR', 'R_ROOT', 'R_PEERS',
        'Q_UPD', 'Q_WD', 'Q_NOTI', 'Q_OTHER')
ALPHA = list(dict.fromkeys(S.ALPHABET_C01 + ['OPEN_nocap', 'UPD_atoverrun', 'UPD_lsunreach'] + S.ODD_LENGTH + S.LENGTH_EDGE))


def register_fuzz(fuzz):
    for k, fr in fuzz.items():
        S.MSGS[k] = (fr, dict(kind='FUZZ'))


def plan(tier, seed):
    shards = []
    d0, d = DEPTH[tier]
    for p in range(PARTS[tier]):
        shards.append(dict(kind='bfs', part=p, nparts=PARTS[tier], d0=d0, depth=d, budget=BUDGET[tier]))
    n, length = WALKS[tier]
    nshard = 4 if tier == 'quick' else 16
    for i in range(nshard):
        shards.append(dict(kind='walk', seed=seed * 1000 + i, n=n // nshard, length=length))
    for i, bgp in enumerate(({'rib': True}, {'rib': True, 'afi_safi': ['ipv6']}, {'rib': True, 'afi_safi': ['flowspec', 'evpn']}, {'afi_safi': ['ipv4', 'ipv6', 'flowspec']})):
        shards.append(dict(kind='walk', seed=seed * 1000 + 100 + i, n=n // nshard, length=length, bgp=bgp))
        shards.append(dict(kind='bfs', part=0, nparts=1, d0=1, depth=DEPTH[tier][1] - 1, budget=BUDGET[tier], bgp=bgp))
    # walks whose peer messages are well-framed mutations of the unit-test corpus (hostile bodies: decoded, reported as
    # malformed, ignored or answered with a NOTIFICATION - each frame is still one received message of its type)
    for i in range(nshard):
        shards.append(dict(kind='walk', fuzz=120 if tier == 'quick' else 1500, seed=seed * 1000 + 500 + i, n=n // nshard, length=length))
    return shards


def run_shard(sh):
    res = dict(evaluations=0, counters={}, maxima={}, sets={}, distinct=[], samples=[], violations=[])
    cfg = dict(time_opts={'idle_hold_time': 5, 'connect_retry_time': 40})
    if sh.get('bgp'):
        cfg['bgp_opts'] = sh['bgp']     # RIB maintenance on, with and without the IPv4 family configured
    viol = {}
    stats = dict(comparisons=0, skipped=0)
    totals = {}

    def note(r):
        m = r.monitors[0]
        stats['comparisons'] += m.comparisons
        stats['skipped'] += m.skipped
        for k, v in m.totals.items():
            totals[k] = max(totals.get(k, 0), v)
        for v in r.collect():
            viol.setdefault((v['kind'], tuple(v['features'])), v)

    if sh['kind'] == 'bfs':
        ex = S.bfs_shard(cfg, [StatMonitor], ALPHA, sh['d0'], sh['depth'], sh['part'], sh['nparts'],
                         multi=False, time_budget=sh['budget'], on_run=note, rest=REST)
        res['evaluations'] = ex.execs
        res['distinct'] = [str(hash(k)) for k in ex.seen]
        res['counters'] = dict(executed_sequences=ex.execs, executed_events=ex.events, states=len(ex.seen),
                               truncated_shards=int(ex.truncated), **stats)
        res['maxima'] = dict(depth_reached=ex.depth_reached)
        if sh['part'] == 0:
            res['samples'] = [dict(events=list(s)) for s in list(ex.seen.values())[-2:]]
    else:
        rng = random.Random(sh['seed'])
        alpha = list(ALPHA)
        weights = {'TICK': 5, 'ACCEPT': 4, 'REFUSE': 1, 'STOP': 0.3, 'START': 1.0, 'OPEN': 5, 'KA': 5,
                   'R_UPD': 3, 'R_RR': 3, 'R_BIN': 3, 'R_WD': 3, 'UPD1': 3, 'RR': 3}
        fuzz = {}
        if sh.get('fuzz'):
            msgs = corpus.messages()
            for j in range(sh['fuzz']):
                t, b = rng.choice(msgs)
                b = mutate.random_mutation(b, rng)[:4077] if rng.random() < 0.8 else b
                fuzz['FZ%d' % j] = frame(t, b)
            register_fuzz(fuzz)
            alpha = ['OPEN', 'KA', 'OPEN_h9', 'NOTI_CEASE', 'BADLEN'] + sorted(fuzz) + S.open_alphabet(rng, 30) + S.noti_alphabet(rng, 30)
            weights.update(OPEN=20, KA=20)
        for i in range(sh['n']):
            if budget.expired():
                break
            r = S.random_walk(cfg, [StatMonitor], alpha, rng, sh['length'], multi=False, rest=REST, weights=weights, lazy=0.3 if i % 2 else 0.0)
            note(r)
            res['evaluations'] += 1
            res['distinct'].append('walk|%d|%d' % (sh['seed'], i))
            if i == 0:
                res['samples'].append(dict(walk=r.seq[:40]))
        res['counters'] = dict(walks=res['evaluations'], **stats)
    res['maxima'].update({'max_' + k: v for k, v in totals.items()})
    res['violations'] = list(viol.values())
    if sh.get('fuzz'):
        res['counters']['fuzzed_frames_in_alphabet'] = sh['fuzz']
        for v in res['violations']:
            rp = v.get('replay')
            if isinstance(rp, dict) and 'events' in rp:
                rp['fuzz'] = {S.parse_event(e)[0]: S.MSGS[S.parse_event(e)[0]][0].hex() for e in rp['events'] if S.parse_event(e)[0].startswith('FZ')}
    return res


def floors(m, tier):
    unmet = []
    if m['counters'].get('comparisons', 0) < 1000:
        unmet.append('fewer than 1000 counter comparisons')
    for k in ('sent:Opens', 'sent:Updates', 'sent:Notifications', 'sent:Keepalives', 'sent:RouteRefresh',
              'recv:Opens', 'recv:Updates', 'recv:Notifications', 'recv:Keepalives', 'recv:RouteRefresh'):
        if m['maxima'].get('max_' + k, 0) < 1:
            unmet.append('no frame of kind %s ever on the wire' % k)
    if tier == 'quick' and m['counters'].get('truncated_shards', 0):
        # the breadth-first part is meant to complete in the quick tier: a search cut by its time box is not 'held'
        unmet = list(unmet) + ['%d breadth-first shard(s) were cut by their time box' % m['counters']['truncated_shards']]
    return unmet


def replay(rep):
    register_fuzz({k: bytes.fromhex(v) for k, v in rep.get('fuzz', {}).items()})
    r = S.run_seq(rep['cfg'], rep['events'], [StatMonitor])
    return r.collect()
