"""C07  Multiprotocol NLRI round trip for every family both encoded and decoded."""
import json
import random

from vlib import gen, contracts

PROPERTY = 'C07'
LEVEL = 'exploration'
TECHNIQUE = 'runtime contract (icontract post-condition) on the real Update.construct for MP_REACH_NLRI / MP_UNREACH_NLRI values: decode(construct(m)) == m, over per-family boundary and random value generators'
RULE = ('attribute 14 / 15 values for IPv6 unicast, IPv4/IPv6 labelled unicast, VPNv4/VPNv6, EVPN route types 1-4 and IPv4 flowspec: all '
        'prefix lengths (0..32 / 0..128) with zero/one/random addresses, label stacks of 1-3 labels from {0,1,3,15,16,2^19,2^20-1}, RD '
        'types 0/1/2 at field limits, ESI types 0..5 with small and maximal values, MAC/IP presence combinations, 1..20 routes per '
        'attribute, next hops with and without link-local, flowspec components 1-8,10,11 with =,<,>,<=,>= on 1/2/4-octet values and '
        '|-lists; the post-condition contract decodes the constructed UPDATE and compares; distinct = distinct attribute values')
ASSUMPTIONS = ['icontract post-condition wraps Update.construct before any other yabgp module binds it',
               'values are generated in the decoder canonical form (host bits clear, withdraw label 524288 for VPN withdrawals)']
SHARD_TIMEOUT = {'quick': 400, 'thorough': 2400}


def features(v):
    f = set()
    fam = tuple(v['afi_safi'])
    routes = v.get('nlri') or v.get('withdraw') or []
    if fam == (2, 1) and len(routes) >= 2 and routes[-1] == '::/0' and routes[-2] == '::/0':
        f.add('ipv6-two-trailing-default-routes')
    for r in routes:
        p = r if isinstance(r, str) else r.get('prefix') if isinstance(r, dict) else None
        if p:
            n = int(p.split('/')[1])
            if n == 0:
                f.add('prefix-len-0')
            if n % 8:
                f.add('prefix-len-not-octet')
        if isinstance(r, dict) and 'label' in r and isinstance(r['label'], list):
            if r['label'] and r['label'][-1] == 0 and 'nlri' in v:
                # the known finding needs >= 3 octets after the stack for the decoder to read on (a route distinguisher, or a
                # prefix longer than 16 bits); a labelled-unicast route with a shorter prefix round-trips on the unchanged tree
                if fam in ((1, 4), (2, 4)) and p and int(p.split('/')[1]) <= 16:
                    f.add('label-0-last-short-prefix')
                else:
                    f.add('label-0-last')
            if len(r['label']) > 1:
                f.add('label-stack')
        if isinstance(r, dict) and 'type' in r and 'value' in r:
            f.add('evpn-type-%s' % r['type'])
            e = r['value'].get('esi')
            if e:
                f.add('esi-type-%s' % e['type'])
            if r['value'].get('ip') and ':' in r['value']['ip']:
                f.add('evpn-ipv6')
        if fam == (1, 133) and isinstance(r, dict):
            for k, x in r.items():
                if int(k) in (1, 2) and x.endswith('/0'):
                    f.add('fs-prefix-len-0')
    return sorted(f)


def classify(rec, fam, which):
    why = rec['why']
    kind = 'mp-roundtrip' if why.startswith('attributes differ') else 'mp-decode-error' if 'sub_error' in why else \
        'mp-construct-raised' if 'construct raised' in why else 'mp-other'
    v = rec['msg']['attr'].get(str(which)) or {}
    return kind, ['family:' + fam, 'attr:%d' % which] + features(v)


def plan(tier, seed):
    n = 16
    per = 50000 if tier == 'quick' else 400000
    return [dict(part=i, seed=seed * 100 + i, n=per) for i in range(n)]


def systematic(rng, fam):
    """every prefix length for the prefix-carrying families, every RD/ESI/label class once"""
    maxlen = 128 if fam in ('ipv6', 'ipv6_lu', 'vpnv6') else 32
    if fam in ('ipv6', 'ipv4_lu', 'ipv6_lu', 'vpnv4', 'vpnv6'):
        six = maxlen == 128
        for n in range(maxlen + 1):
            for fill in ('zero', 'ones', 'rand'):
                p = (gen.prefix6 if six else gen.prefix4)(rng, n, fill)
                for wd in (False, True):
                    v = gen.mp_value(rng, fam, withdraw=wd, nmax=1)
                    key = 'withdraw' if wd else 'nlri'
                    r0 = v[key][0]
                    if isinstance(r0, dict):
                        r0 = dict(r0, prefix=p)
                        v[key] = [r0, dict(r0, prefix=(gen.prefix6 if six else gen.prefix4)(rng, 24, 'rand'))]
                    else:
                        v[key] = [p, (gen.prefix6 if six else gen.prefix4)(rng, 24, 'rand')]
                    yield v, wd
    if fam in ('ipv4_lu', 'ipv6_lu', 'vpnv4', 'vpnv6'):
        for lab in gen.LABELS[1:]:
            v = gen.mp_value(rng, fam, nmax=1)
            v['nlri'] = [dict(v['nlri'][0], label=[lab]), dict(v['nlri'][0], label=[lab])]
            yield v, False
    if fam == 'ipv6':
        # a duplicated default route at the end of the list touches a known finding; one explicit case keeps it visible
        yield {'afi_safi': [2, 1], 'nexthop': '2001:db8::1', 'nlri': ['2001:db8:1::/48', '::/0', '::/0']}, False
    if fam == 'evpn':
        for t in (1, 2, 3, 4):
            for _ in range(40):
                r = gen.evpn_route(rng, t)
                yield {'afi_safi': [25, 70], 'nexthop': '10.0.0.1', 'nlri': [r, gen.evpn_route(rng, t)]}, False
                yield {'afi_safi': [25, 70], 'withdraw': [r]}, True
        for _ in range(60):
            # IP prefix routes (type 5), IPv4 and IPv6, in the encoder's own input shape
            r = gen.evpn_route5c(rng)
            yield {'afi_safi': [25, 70], 'nexthop': '10.0.0.1', 'nlri': [r, gen.evpn_route(rng, 2)]}, False
            yield {'afi_safi': [25, 70], 'withdraw': [r]}, True
    if fam == 'flowspec':
        for c in gen.FS_NUMERIC:
            for op in ('=', '>', '<', '>=', '<='):
                for w in (1, 2, 4):
                    yield {'afi_safi': [1, 133], 'nexthop': '', 'nlri': [{1: '192.0.2.0/24', c: op + str(gen.fs_value(rng, w))}]}, False
        for n in range(33):
            yield {'afi_safi': [1, 133], 'nexthop': '', 'nlri': [{1: gen.prefix4(rng, n, 'rand'), 2: gen.prefix4(rng, n, 'ones')}]}, False
        # rules around the 240-octet boundary of the 1-octet NLRI length
        for k in (57, 58, 59, 60, 61, 100):
            long_rule = {1: gen.prefix4(rng, 24, 'rand'), 5: '|'.join('=%d' % (1000 + i) for i in range(k))}
            yield {'afi_safi': [1, 133], 'nexthop': '', 'nlri': [long_rule, {1: '192.0.2.0/24'}]}, False
            yield {'afi_safi': [1, 133], 'withdraw': [long_rule]}, True


def run_shard(sh):
    contracts.install()
    from yabgp.message.update import Update
    rng = random.Random(sh['seed'])
    res = dict(evaluations=0, counters={}, maxima={}, sets={}, distinct=[], samples=[], violations=[])
    fam = gen.FAMILIES[sh['part'] % len(gen.FAMILIES)]
    fams = [fam] if sh['part'] < 14 else gen.FAMILIES
    uniq = {}
    seen = set()
    classes = set()
    raised = 0
    for fam in fams:
        cases = (list(systematic(random.Random(sh['seed']), fam)) if sh['part'] < 7 else []) + \
                [(gen.mp_value(rng, fam, withdraw=wd), wd) for wd in (False, True) for _ in range(sh['n'] // (2 * len(fams)))]
        if fam in ('ipv4_lu', 'ipv6_lu'):
            # MP_UNREACH of labelled unicast has no decoder branch (returned as raw octets): not a family 'both encoded and decoded'
            cases = [c for c in cases if not c[1]]
        for v, wd in cases:
            which = 15 if wd else 14
            m = {'attr': {which: v}}
            if not wd and rng.random() < 0.3:
                m['attr'].update({1: 0, 2: [[2, [65001]]], 5: 100})
            key = json.dumps(gen.norm(m), sort_keys=True)
            if key in seen:
                continue
            seen.add(key)
            for f in features(v):
                classes.add(fam + ':' + f)
            classes.add(fam + ':' + ('withdraw' if wd else 'announce'))
            n0 = len(contracts.STATE['violations'])
            try:
                Update.construct(m, True)
            except Exception as e:
                raised += 1
                contracts.STATE['violations'].append(dict(contract='roundtrip', msg=gen.norm(m), asn4=True,
                                                         why='construct raised %s(%s) on a supported in-range value' % (type(e).__name__, str(e)[:80])))
            res['evaluations'] += 1
            for rec in contracts.STATE['violations'][n0:]:
                if rec['contract'] != 'roundtrip':
                    continue
                kind, feats = classify(rec, fam, which)
                uniq.setdefault((kind, tuple(feats)), dict(kind=kind, features=feats, detail=rec['why'][:700] + ' | value ' + json.dumps(gen.norm(v))[:300],
                                                           replay=dict(msg=rec['msg'], asn4=True, family=fam, which=which)))
    res['violations'] = list(uniq.values())
    res['distinct'] = [str(hash(k)) for k in seen]
    res['counters'] = dict(contract_evaluations=contracts.STATE['evaluations'].get('Update.construct:roundtrip', 0), construct_raised=raised)
    res['counters']['values_' + (fams[0] if len(fams) == 1 else 'mixed')] = res['evaluations']
    res['sets'] = dict(value_classes=sorted(classes))
    res['samples'] = [gen.norm(gen.mp_value(random.Random(2), f)) for f in fams[:2]]
    return res


def floors(m, tier):
    c = m['counters']
    unmet = []
    if c.get('contract_evaluations', 0) < 10000:
        unmet.append('fewer than 10000 contract evaluations')
    for f in gen.FAMILIES:
        if c.get('values_' + f, 0) < 300:
            unmet.append('family %s: fewer than 300 values' % f)
    return unmet


def replay(rep):
    contracts.install()
    from yabgp.message.update import Update
    m = {'attr': {int(k): v for k, v in rep['msg']['attr'].items()}}
    out = []
    try:
        Update.construct(m, rep['asn4'])
    except Exception as e:
        contracts.STATE['violations'].append(dict(contract='roundtrip', msg=gen.norm(m), asn4=True, why='construct raised %s on a supported in-range value' % type(e).__name__))
    for rec in contracts.STATE['violations']:
        if rec['contract'] == 'roundtrip':
            kind, feats = classify(rec, rep.get('family', '?'), rep.get('which', 14))
            out.append(dict(kind=kind, features=feats, detail=rec['why']))
    return out
