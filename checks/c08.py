"""C08  Everything the agent constructs is structurally valid BGP on the wire."""
import json
import random
import struct

from vlib import env, gen, refenc, contracts, walker
env.setup()

PROPERTY = 'C08'
LEVEL = 'exploration'
TECHNIQUE = 'runtime monitoring: independent structural walker attached as a post-condition contract to Update.construct and applied to every OPEN/NOTIFICATION/KEEPALIVE/ROUTE-REFRESH constructed and to every frame the agent writes on the wire tap of live sessions'
RULE = ('the value spaces of C06, C07 and C14 plus construct-only families (SR-TE policy NLRI, tunnel-encapsulation attribute in both '
        'codings with preference / binding SID / ENLP / priority / policy name 0..255 chars / remote endpoint v4,v6 / 0..4 segment lists with '
        'weight and every segment sub-TLV kind with and without optional SID, PMSI tunnel, IPv6 flowspec with prefix offsets, flowspec '
        'rules beyond 240 octets, attribute values across the 255-octet boundary and requests towards / beyond 4096 octets, every next-hop form per family, non-ASCII policy names, VPN label stacks); every message yabgp constructs is walked by a syntactic checker that shares no code with yabgp: length '
        'fields = bytes that follow, containers sum exactly, flag octets vs RFC category, prefixes ceil(len/8); a construct that '
        'returns nothing for a non-empty request without raising is a violation; distinct = distinct messages walked')
ASSUMPTIONS = ['vlib/walker.py written from the RFCs (4271, 4760, 5492, 8277, 4364, 7432, 8955/8956, 9012, 9256 drafts, 6514, 7752)',
               'the walker knows the AS width of UPDATEs it is given (asn4 flag) so AS_PATH segments can be summed']
SHARD_TIMEOUT = {'quick': 400, 'thorough': 2400}


def sid(rng):
    return {'label': rng.choice(gen.LABELS), 'TC': rng.choice([0, 7]), 'S': rng.choice([0, 1]), 'TTL': rng.choice([0, 255])}


def segment(rng):
    t = rng.choice([1, 3, 5, 6])
    if t == 1:
        v = rng.choice([{'label': rng.choice(gen.LABELS)}, sid(rng)])
    elif t == 3:
        v = {'node': gen.ipv4(rng)}
    elif t == 5:
        v = {'interface': rng.choice(gen.U32), 'node': gen.ipv4(rng)}
    else:
        v = {'local': gen.ipv4(rng), 'remote': gen.ipv4(rng)}
    if t != 1 and rng.random() < 0.5:
        v['SID'] = sid(rng)
    return {str(t): v}


def tunnel_encaps(rng):
    coding = rng.choice(['old', 'new'])
    v = {'0': coding}
    if rng.random() < 0.7:
        v[rng.choice(['6', '12']) if coding == 'old' else '12'] = rng.choice(gen.U32)
    if rng.random() < 0.7:
        v[rng.choice(['7', '13'])] = rng.choice(gen.LABELS)
    if coding == 'new':
        if rng.random() < 0.4:
            v['14'] = rng.choice([0, 1, 2, 3, 4, 255])
        if rng.random() < 0.4:
            v['15'] = rng.choice([0, 1, 255])
        if rng.random() < 0.5:
            # names outside ASCII too (accented, CJK, emoji: 2-, 3-, 4-octet UTF-8): refused or encoded with the right length
            alpha = rng.choice(['abcXYZ-_09', 'abcXYZ-_09', 'abc\u00e9\u00fc', 'ab\u4e2d\u6587', 'a\U0001f600b'])
            v['129'] = ''.join(rng.choice(alpha) for _ in range(rng.choice([0, 1, 5, 30, 254, 255, 300])))
        if rng.random() < 0.4:
            six = rng.random() < 0.5
            v['6'] = {'asn': rng.choice(gen.ASN4), 'afi': 'ipv6' if six else 'ipv4', 'address': gen.ipv6(rng, 'doc') if six else gen.ipv4(rng)}
            if rng.random() < 0.25:
                # the family named in another spelling or not matching the address: refused, or encoded with matching lengths
                v['6']['afi'] = rng.choice(['IPv6', 'ipv6 ', 'inet6', 'IPV4', 'ipv4', 'ipv6', None, 2, 1, ''])
    nl = rng.choice([0, 1, 1, 2, 4])
    if nl:
        lists = []
        for _ in range(nl):
            sl = {'1': [segment(rng) for _ in range(rng.choice([0, 1, 2, 5, 12]))]}
            if rng.random() < 0.6:
                sl['9'] = rng.choice(gen.U32)
            lists.append(sl)
        v['128'] = lists
    return v


def srte_update(rng):
    six = False
    v14 = {'afi_safi': [1, 73], 'nexthop': gen.ipv4(rng, 'rand'),
           'nlri': {'distinguisher': rng.choice(gen.U32), 'color': rng.choice(gen.U32),
                    'endpoint': gen.ipv4(rng) if rng.random() < 0.7 else gen.ipv6(rng, rng.choice(['doc', 'rand', 'zero']))}}
    if rng.random() < 0.2:
        # the policy is withdrawn: MP_UNREACH_NLRI with the same NLRI
        return {'attr': {15: {'afi_safi': [1, 73], 'withdraw': v14['nlri']}}}
    return {'attr': {1: 0, 2: [], 5: 100, 8: ['NO_ADVERTISE'], 14: v14, 16: [[rng.choice([779, 779, 0x030b0000, 0x030b4000, 0x030b8000, 0x030bc000]), rng.choice(gen.U16 + gen.U32)]], 23: tunnel_encaps(rng)}}


def pmsi_update(rng):
    v = {'mpls_label': [rng.choice(gen.LABELS)], 'tunnel_id': gen.ipv4(rng), 'tunnel_type': rng.choice([6, 6, 6, 0, 1, 2, 3]),
         'leaf_info_required': rng.choice([0, 1])}
    at = {1: 0, 2: [], 3: '10.0.0.1', 22: v}
    if rng.random() < 0.5:
        at[14] = {'afi_safi': [25, 70], 'nexthop': '10.0.0.1', 'nlri': [gen.evpn_route(rng, 3)]}
        at[16] = [[780, rng.choice([8, 9, 10])]]
    return {'attr': at}


def fs6_ops(rng, n=None):
    # includes inputs the encoder is documented not to support (values needing exactly 3 octets, '&'): they must be refused
    # with an exception or encoded validly - never silently mis-encoded
    def val():
        return rng.choice([65536, 74565, 16777215]) if rng.random() < 0.15 else gen.fs_value(rng)
    parts = []
    for _ in range(n or rng.choice([1, 2, 3])):
        t = rng.choice(['=', '>', '<', '>=', '<=']) + str(val())
        if rng.random() < 0.12:
            t += '&' + rng.choice(['<', '<=', '>']) + str(val())
        parts.append(t)
    return '|'.join(parts)


def vpn_multilabel_update(rng):
    six = rng.random() < 0.5
    routes = []
    for _ in range(rng.choice([1, 2, 3])):
        labels = [rng.choice(gen.LABELS[1:]) for _ in range(rng.choice([1, 2, 3]))]
        routes.append({'rd': gen.rd(rng), 'prefix': (gen.prefix6 if six else gen.prefix4)(rng, None, 'rand'), 'label': labels})
    v = {'afi_safi': [2 if six else 1, 128], 'nexthop': {'rd': '0:0', 'str': gen.ipv6(rng, 'doc') if six else gen.ipv4(rng, 'rand')}, 'nlri': routes}
    return {'attr': {1: 0, 2: [], 14: v}}


def flowspec4_unsupported_update(rng):
    rule = {1: gen.prefix4(rng, 24, 'rand'), rng.choice(gen.FS_NUMERIC): fs6_ops(rng)}
    return {'attr': {14: {'afi_safi': [1, 133], 'nexthop': '', 'nlri': [rule]}}}


def flowspec6_update(rng):
    rule = {}
    if rng.random() < 0.8:
        n = rng.choice([0, 1, 8, 32, 33, 48, 64, 65, 127, 128])
        rule[1] = {'prefix': gen.prefix6(rng, n, 'rand'), 'offset': rng.choice([0, 0, 8, 1, 16, 31, 32]) if n >= 33 else 0}
    if rng.random() < 0.4:
        rule[2] = {'prefix': gen.prefix6(rng, 64, 'rand'), 'offset': rng.choice([0, 8, 5])}
    for c in (3, 4, 5, 6, 7, 8, 10, 11, 13):
        if rng.random() < 0.2:
            rule[c] = fs6_ops(rng)
    if not rule:
        rule[1] = {'prefix': '2001:db8::/32', 'offset': 0}
    return {'attr': {14: {'afi_safi': [2, 133], 'nexthop': '', 'nlri': [rule]}}}


def long_flowspec_update(rng):
    """rules around and beyond the 240-octet limit of the 1-octet NLRI length"""
    if rng.random() < 0.4:
        # IPv6: 3 (type, length, offset) + 8 prefix octets + 1 + 3 per term: 236..248 octets for 75..79 terms
        n = rng.choice([60, 74, 75, 76, 77, 78, 79, 80, 120])
        rule = {1: {'prefix': gen.prefix6(rng, 64, 'rand'), 'offset': 0}, 5: '|'.join('=%d' % (1000 + i) for i in range(n))}
        rules = [rule] + ([{1: {'prefix': '2001:db8::/32', 'offset': 0}}] if rng.random() < 0.5 else [])
        return {'attr': {14: {'afi_safi': [2, 133], 'nexthop': '', 'nlri': rules}}}
    n = rng.choice([55, 58, 59, 60, 61, 80, 120])
    rule = {1: gen.prefix4(rng, 24, 'rand'), 5: '|'.join('=%d' % (1000 + i) for i in range(n))}
    return {'attr': {14: {'afi_safi': [1, 133], 'nexthop': '', 'nlri': [rule]}}}


def nexthop_forms_update(rng):
    """MP_REACH of every family with the next-hop forms a request can carry: IPv4, IPv6, IPv4-mapped IPv6, global + link-local,
    RD-prefixed forms with either address family (RFC 4364 / 4659 / 8950)"""
    fam = rng.choice(gen.FAMILIES)
    v = gen.mp_value(rng, fam, nmax=3)
    addr = rng.choice([gen.ipv4(rng, 'rand'), gen.ipv6(rng, 'doc'), gen.ipv6(rng, 'mapped'), gen.ipv6(rng, 'rand')])
    if fam in ('vpnv4', 'vpnv6'):
        v['nexthop'] = {'rd': rng.choice(['0:0', '65000:1']), 'str': addr}
    elif fam == 'flowspec':
        v['nexthop'] = rng.choice(['', addr])
    else:
        v['nexthop'] = addr
        if ':' in addr and rng.random() < 0.3:
            v['linklocal_nexthop'] = gen.ipv6(rng, 'll')
    return {'attr': {1: 0, 2: [], 5: 100, 14: v}}


def oversize_update(rng, asn4):
    """attribute values across the 255-octet boundary (2-octet length form) and messages towards the 4096-octet limit"""
    at = {1: 0, 2: [], 3: gen.ipv4(rng), 5: 100}
    k = rng.choice([8, 10, 16, 32, 2, 'nlri', 'mp', 'limit', 'limit'])
    n = rng.choice([64, 65, 100, 300, 1100])
    m = {'attr': at, 'nlri': ['192.0.2.0/24']}
    if k == 8:
        at[8] = [gen.community_text(rng) for _ in range(n)]
    elif k == 10:
        at[10] = [gen.ipv4(rng) for _ in range(n)]
    elif k == 16:
        from checks import c06
        at.update(c06.to_construct({16: [gen.ext_community(rng) for _ in range(min(n, 300))]}))
    elif k == 32:
        at[32] = [gen.large_community_text(rng) for _ in range(min(n, 300))]
    elif k == 2:
        at[2] = [[rng.choice([1, 2]), [rng.choice(gen.ASN4 if asn4 else gen.ASN2) for _ in range(rng.choice([255, 256, 300, 600]))]]]
    elif k == 'limit':
        # a request whose message would be exactly T octets, T around the 4096-octet maximum:
        # 19 header + 4 length fields + 21 attribute octets (ORIGIN, empty AS_PATH, NEXT_HOP, LOCAL_PREF) + NLRI
        T = rng.randint(4080, 4125)
        rest = T - 44
        extra = {0: [], 1: ['203.0.113.9/32'], 2: ['11.0.0.0/8'], 3: ['172.16.0.0/16']}[rest % 4]
        n24 = (rest - {0: 0, 1: 5, 2: 2, 3: 3}[rest % 4]) // 4
        m['nlri'] = ['10.%d.%d.0/24' % (i // 256, i % 256) for i in range(n24)] + extra
    elif k == 'nlri':
        m['nlri'] = ['10.%d.%d.0/24' % (i // 256, i % 256) for i in range(rng.choice([600, 1020, 1021, 1200]))]
        if rng.random() < 0.5:
            m['withdraw'] = ['172.16.%d.0/24' % i for i in range(200)]
    else:
        fam = rng.choice(['ipv6', 'vpnv4', 'evpn', 'ipv4_lu'])
        at.pop(3, None)
        at[14] = gen.mp_value(rng, fam, nmax=rng.choice([40, 200, 400]))
        m.pop('nlri')
    return m


def request_features(m):
    """input features used for known-findings matching"""
    f = set()
    at = m.get('attr') or {}
    for k in (14, '14'):
        v = at.get(k)
        if not v:
            continue
        fam = tuple(v['afi_safi'])
        routes = v.get('nlri') or []
        if fam[1] in (4, 128) and isinstance(routes, list):
            for r in routes:
                if isinstance(r, dict) and r.get('label') and r['label'][-1] == 0:
                    f.add('label-0-last')
        if fam == (2, 133):
            for r in routes:
                for c in (1, 2, '1', '2'):
                    if isinstance(r.get(c), dict) and r[c].get('offset', 0) % 8:
                        f.add('ipv6-flowspec-offset-not-octet-aligned')
    return sorted(f)


def feats_of(m):
    f = []
    at = m.get('attr') or {}
    v14 = at.get(14) or at.get('14')
    if v14:
        f.append('mp:%s/%s' % tuple(v14['afi_safi']))
    for c in (22, 23):
        if c in at:
            f.append('attr:%d' % c)
    return f


def plan(tier, seed):
    n = 16
    per = 16000 if tier == 'quick' else 100000
    return [dict(part=i, seed=seed * 100 + i, n=per, tier=tier) for i in range(n)] + [dict(kind='wire', seed=seed, n=120 if tier == 'quick' else 800)]


def run_shard(sh):
    res = dict(evaluations=0, counters={}, maxima={}, sets={}, distinct=[], samples=[], violations=[])
    V = {}
    wstats = {}

    def bad(kind, feats, detail, replay):
        V.setdefault((kind, tuple(feats)), dict(kind=kind, features=list(feats), detail=detail, replay=replay))

    def problem_class(pr):
        return pr.split(':')[0]

    if sh.get('kind') == 'wire':
        return run_wire(sh, res)
    contracts.STATE['walker'] = lambda b, asn4=None, addpath=False: walker.walk(b, asn4=asn4, addpath=addpath, stats=wstats)
    contracts.install()
    from yabgp.message.update import Update
    from yabgp.message.open import Open
    from checks import c06, c07, c14
    rng = random.Random(sh['seed'])
    by = {}
    none_results = 0

    def do_update(m, asn4, fam):
        n0 = len(contracts.STATE['violations'])
        by[fam] = by.get(fam, 0) + 1
        res['evaluations'] += 1
        try:
            r = Update.construct(m, asn4)
        except Exception:
            return                        # construction failed with an error: allowed
        if r is None or r == b'':
            bad('construct-silent-nothing', ['family:' + fam], 'construct returned %r for the non-empty request %s' % (r, json.dumps(gen.norm(m))[:300]),
                dict(msg=gen.norm(m), asn4=asn4))
        for rec in contracts.STATE['violations'][n0:]:
            if rec['contract'] == 'structure':
                why = rec['why'].split('; ')
                if fam == 'nexthop-forms':
                    # which next-hop form suits which family is a matter of meaning, not of structure: only framing is judged here
                    why = [x for x in why if '(allowed' not in x]
                    if not why:
                        continue
                    rec = dict(rec, why='; '.join(why))
                cls = sorted({problem_class(x) for x in rec['why'].split('; ')})
                bad('malformed-message', ['family:' + fam] + ['where:' + c for c in cls[:2]] + request_features(rec['msg']), rec['why'][:500] + ' | request ' + json.dumps(rec['msg'])[:300] +
                    ' | hex ' + rec['hex'][:200], dict(msg=rec['msg'], asn4=asn4))

    for i in range(sh['n']):
        asn4 = rng.random() < 0.5
        r = rng.random()
        if r < 0.2:
            m = next(c06.random_msgs(rng, 1, asn4))
            if 'attr' in m:
                m['attr'] = c06.to_construct(m['attr'])
            do_update(m, asn4, 'ipv4-standard')
        elif r < 0.45:
            fam = rng.choice(gen.FAMILIES)
            wd = rng.random() < 0.3
            do_update({'attr': {15 if wd else 14: gen.mp_value(rng, fam, withdraw=wd)}}, asn4, fam)
        elif r < 0.60:
            do_update(srte_update(rng), asn4, 'sr-te-policy')
        elif r < 0.68:
            do_update(pmsi_update(rng), asn4, 'pmsi')
        elif r < 0.76:
            do_update(flowspec6_update(rng), asn4, 'ipv6-flowspec')
        elif r < 0.82:
            do_update(nexthop_forms_update(rng), asn4, 'nexthop-forms')
        elif r < 0.88:
            do_update(oversize_update(rng, asn4), asn4, 'oversize-values')
        elif r < 0.92:
            do_update(vpn_multilabel_update(rng), asn4, 'vpn-label-stack')
        elif r < 0.96:
            do_update(flowspec4_unsupported_update(rng), asn4, 'flowspec-unsupported-inputs')
        else:
            do_update(long_flowspec_update(rng), asn4, 'flowspec-long')
    # OPEN / NOTIFICATION / KEEPALIVE / ROUTE-REFRESH constructs
    from yabgp.message.notification import Notification
    from yabgp.message.keepalive import KeepAlive
    from yabgp.message.route_refresh import RouteRefresh
    import netaddr
    nopen = 0
    for i in range(sh['n'] // 2):
        capd = {}
        if rng.random() < 0.8:
            capd['afi_safi'] = [tuple(f) for f in rng.sample(c14.FAMS, rng.choice([1, 2, 12]))]
        for k in ('route_refresh', 'cisco_route_refresh', 'enhanced_route_refresh', 'four_bytes_as', 'graceful_restart', 'cisco_multi_session'):
            if rng.random() < 0.5:
                capd[k] = True
        if rng.random() < 0.3:
            capd['add_path'] = rng.choice(['ipv4_send', 'ipv4_receive', 'ipv4_both'])
        if rng.random() < 0.3:
            capd['ext_nexthop'] = [{'afi_safi': list(rng.choice(c14.FAMS)), 'nexthop_afi': rng.choice([1, 2])} for _ in range(rng.choice([0, 1, 3, 40]))]
        try:
            raw = Open(version=4, asn=rng.choice(c14.ASNS), hold_time=rng.choice(gen.U16), bgp_id=int(netaddr.IPAddress(rng.choice(c14.BIDS)))).construct(capd)
        except Exception:
            continue
        nopen += 1
        res['evaluations'] += 1
        pr = walker.walk(raw, stats=wstats)
        if pr:
            bad('malformed-message', ['type:OPEN', 'where:' + problem_class(pr[0])], '; '.join(pr[:3]) + ' | caps ' + json.dumps(gen.norm(capd))[:300] + ' | hex ' + raw.hex()[:200],
                dict(open_caps=gen.norm(capd)))
    for raw, what in [(Notification().construct(rng.randrange(256), rng.randrange(256), bytes(rng.randrange(256) for _ in range(rng.choice([0, 1, 64])))), 'NOTIFICATION')
                      for _ in range(50)] + [(KeepAlive().construct(), 'KEEPALIVE')] + \
            [(RouteRefresh(rng.choice([1, 2, 25, 16388]), rng.randrange(256), rng.choice([0, 1])).construct(rng.choice([5, 128])), 'ROUTE-REFRESH') for _ in range(50)]:
        res['evaluations'] += 1
        pr = walker.walk(raw, stats=wstats)
        if pr:
            bad('malformed-message', ['type:' + what], '; '.join(pr[:3]) + ' | hex ' + raw.hex(), dict(hex=raw.hex()))
    res['violations'] = list(V.values())
    res['distinct'] = ['%d|%d' % (sh['seed'], i) for i in range(res['evaluations'])]
    res['counters'] = dict(structure_contract_evaluations=contracts.STATE['evaluations'].get('Update.construct:structure', 0),
                           opens_walked=nopen, containers_checked=wstats.get('containers', 0), **{'messages_' + k: v for k, v in by.items()})
    res['maxima'] = dict(nesting_depth_seen=wstats.get('depth', 0))
    res['sets'] = dict(attribute_flag_octets=sorted(wstats.get('attr_flags', [])))
    res['samples'] = [gen.norm(srte_update(random.Random(4)))]
    return res


def run_wire(sh, res):
    """every frame the agent writes in live sessions (C01-style walks + REST sends) is walked"""
    from vlib import session as S
    from vlib.world import reactor
    rng = random.Random(sh['seed'])
    V = {}
    stats = {}
    frames = 0
    for i in range(sh['n']):
        r = S.random_walk(dict(time_opts={'idle_hold_time': 5, 'connect_retry_time': 40}), [], S.ALPHABET_C01, rng, 150, rest=('R_UPD', 'R_WD', 'R_RR'),
                          weights={'TICK': 5, 'ACCEPT': 4, 'OPEN': 5, 'KA': 5, 'R_UPD': 3, 'R_RR': 2, 'R_WD': 2, 'STOP': 0.3})
        for t in r.w.transports():
            from vlib import wire as W
            for fr in W.frames_of_writes(t.written):
                frames += 1
                pr = walker.walk(fr[3], asn4=None, stats=stats) if fr[1] not in ('garbage', 'partial') else ['unframeable bytes written']
                if pr:
                    V.setdefault(pr[0].split(':')[0], dict(kind='malformed-message-on-wire', features=['type:%s' % fr[1]], detail='; '.join(pr[:3]) + ' | ' + fr[3].hex()[:200],
                                                           replay=dict(cfg=r.cfg, events=r.seq)))
    res['evaluations'] = frames
    res['distinct'] = ['wire|%d|%d' % (sh['seed'], i) for i in range(frames)]
    res['counters'] = dict(frames_walked_on_wire_taps=frames)
    res['violations'] = list(V.values())
    return res


def floors(m, tier):
    c = m['counters']
    unmet = []
    for k, n in (('structure_contract_evaluations', 5000), ('frames_walked_on_wire_taps', 500), ('opens_walked', 1000), ('messages_sr-te-policy', 500),
                 ('messages_ipv6-flowspec', 300), ('messages_pmsi', 200)):
        if c.get(k, 0) < n:
            unmet.append('%s below %d' % (k, n))
    return unmet


def replay(rep):
    contracts.STATE['walker'] = lambda b, asn4=None, addpath=False: walker.walk(b, asn4=asn4, addpath=addpath)
    contracts.install()
    from yabgp.message.update import Update
    out = []
    if 'msg' in rep:
        m = {k: v for k, v in rep['msg'].items()}
        if 'attr' in m:
            m['attr'] = {int(k): v for k, v in m['attr'].items()}
        try:
            Update.construct(m, rep.get('asn4', True))
        except Exception:
            pass
        for rec in contracts.STATE['violations']:
            if rec['contract'] == 'structure':
                out.append(dict(kind='malformed-message', features=[], detail=rec['why']))
    return out
