"""C16  REST control surface is authenticated and state-gated; sends are faithful."""
import base64
import json
import random
import struct

from vlib import session as S
from vlib import wire, gen, refenc
from vlib.world import World, peer_open, KEEPALIVE, reactor, CONF, app

PROPERTY = 'C16'
LEVEL = 'exploration'
TECHNIQUE = 'runtime monitoring of the real Flask views against a live peering: HTTP status + no-effect fingerprint for every rule x method x credential case x session state, establishment gate on send endpoints, wire-tap comparison of successful sends with Update.construct and with the reference encoder'
RULE = ('every rule of app.url_map under /v1/peer/ x {GET,HEAD,POST,PUT,DELETE,PATCH} x {no credentials, wrong user, wrong password, '
        'malformed header, empty password, valid} x a representative world per reachable (state, protocol present, stopped) class; invalid '
        'credentials must give 401 and leave wire tap, connectors and the whole world fingerprint (statistics, RIBs, versions, capabilities) '
        'unchanged; send endpoints outside Established must write nothing and not report success; successful sends (C06/C07 message '
        'spaces as JSON incl. requests mixing IPv4 prefixes with an MP attribute, route-refresh for advertised and other families, bin_update) must put exactly the requested frame on the current '
        'connection; distinct = distinct (rule, method, credential case, state) and distinct sent messages')
ASSUMPTIONS = ['one REST request = one atomic event between reactor callbacks (Flask test client), except requests placed inside the instant of a close and sends whose queued write races the end of the session (DESIGN.md 15.3)', 'reference encoder vlib/refenc.py for the IPv4 unicast comparison']
SHARD_TIMEOUT = {'quick': 400, 'thorough': 2400}
METHODS = ['GET', 'HEAD', 'POST', 'PUT', 'DELETE', 'PATCH']
SEND_RULES = ('send/update', 'send/route-refresh', 'send/bin_update')
GATED = SEND_RULES + ('json_to_bin', 'adj-rib-in', 'adj-rib-out')
BODIES = {
    'send/update': {'attr': {'1': 0, '2': [], '3': '10.0.0.1', '5': 100}, 'nlri': ['198.51.100.0/24']},
    'send/route-refresh': {'afi': 1, 'safi': 1},
    'send/bin_update': {'binary_data': S.UPD_ROUTE.hex()},
    'json_to_bin': {'attr': {'1': 0, '2': [], '3': '10.0.0.1'}, 'nlri': ['198.51.100.0/24']},
    'adj-rib-in': {'data': ['198.51.100.0/24']},
    'adj-rib-out': {'data': ['198.51.100.0/24']},
}


def world_for(state, cfg=None):
    """representative world per (state, has-protocol, stopped) class"""
    w = World(**(cfg or {}))
    seq = {'IDLE-boot': [], 'CONNECT': ['TICK'], 'OPENSENT': ['TICK', 'ACCEPT'], 'OPENCONFIRM': ['TICK', 'ACCEPT', 'OPEN'],
           'ESTABLISHED': ['TICK', 'ACCEPT', 'OPEN', 'KA'], 'IDLE-after-session': ['TICK', 'ACCEPT', 'OPEN', 'KA', 'PEERCLOSE'],
           'IDLE-stopped': ['TICK', 'ACCEPT', 'OPEN', 'KA', 'STOP'], 'CONNECT-after-session': ['TICK', 'ACCEPT', 'OPEN', 'KA', 'PEERCLOSE', 'TICK'],
           'IDLE-stopped-at-boot': ['STOP']}[state]
    for e in seq:
        S.apply_event(w, e)
    return w


STATES = ['IDLE-boot', 'CONNECT', 'OPENSENT', 'OPENCONFIRM', 'ESTABLISHED', 'IDLE-after-session', 'IDLE-stopped', 'CONNECT-after-session', 'IDLE-stopped-at-boot']


def rules():
    out = []
    for r in app.url_map.iter_rules():
        if r.rule.startswith('/v1/peer/'):
            out.append((r.rule, sorted(m for m in r.methods if m not in ('OPTIONS',))))
    return sorted(out)


def url_of(rule, ip):
    return rule.replace('<peer_ip>', ip).replace('<action>', 'send')


def creds(w):
    b = lambda s: {'Authorization': 'Basic ' + base64.b64encode(s.encode()).decode()}
    return {
        'none': {},
        'wrong-user': b('root:%s' % w.password),
        'wrong-password': b('%s:nope' % w.user),
        'empty-password': b('%s:' % w.user),
        'malformed': {'Authorization': 'Basic !!!not-base64'},
        'user-only': b(w.user),
        'wrong-user-empty-password': b('root:'),
        'colon-only': b(':'),
        'password-prefix': b('%s:%s' % (w.user, w.password[:-1])),
        'password-extended': b('%s:%sx' % (w.user, w.password)),
        'user-uppercase': b('%s:%s' % (w.user.upper(), w.password)),
        'user-trailing-space': b('%s :%s' % (w.user, w.password)),
        # near misses of the user name with the right password
        'user-prefix': b('%s:%s' % (w.user[:-1], w.password)),
        'user-suffix': b('%s:%s' % (w.user[1:], w.password)),
        'user-first-char': b('%s:%s' % (w.user[:1], w.password)),
        'user-empty': b(':%s' % w.password),
        'user-extended': b('%sx:%s' % (w.user, w.password)),
    }


def full_fp(w):
    pr = w.fsm.protocol
    extra = None
    if pr is not None:
        extra = json.dumps([pr.msg_sent_stat, pr.msg_recv_stat, pr.send_version, pr.receive_version, pr.adj_rib_in, pr.adj_rib_out,
                            pr.flowspec_send_dict, pr.sr_send_dict, pr.mpls_vpn_send_dict], sort_keys=True, default=repr)
    nw = sum(len(t.written) for t in w.transports())
    return (S.fingerprint(w), extra, nw, len(w.connectors()), len(reactor._thread_q), len(w.handler.ev))


def plan(tier, seed):
    n = 16
    return [dict(part=i, nparts=n, seed=seed * 100 + i, n=6000 if tier == 'quick' else 40000, tier=tier) for i in range(n)]


def to_json_attrs(attrs):
    """generator value -> what a REST client posts (string keys, extended communities as text)"""
    out = {}
    for k, v in attrs.items():
        out[str(k)] = [refenc.ext_text(e) for e in v] if k == 16 else v
    return out


def split_attrs(b):
    out, i = [], 0
    while i < len(b):
        fl, code = b[i], b[i + 1]
        if fl & 0x10:
            ln = struct.unpack('!H', b[i + 2:i + 4])[0]
            h = 4
        else:
            ln = b[i + 2]
            h = 3
        out.append((code, b[i + h:i + h + ln]))
        i += h + ln
    return out


def run_shard(sh):
    rng = random.Random(sh['seed'])
    res = dict(evaluations=0, counters=dict(requests=0, unauthorized_401=0, gate_refusals=0, sends_compared=0, reference_compared=0, method_not_allowed=0),
               maxima={}, sets={}, distinct=[], samples=[], violations=[])
    V = {}

    def bad(kind, feats, detail, replay):
        V.setdefault((kind, tuple(sorted(feats))), dict(kind=kind, features=sorted(feats), detail=detail, replay=replay))

    rl = rules()
    res['sets']['rules'] = [r for r, _ in rl]
    # ------------------------------------------------------------ requests outside /v1/peer/ (API root, peer list) have no effect on the peer
    if sh['part'] < len(STATES):
        st = STATES[sh['part']]
        w = world_for(st)
        for url, hdr in (('/v1/', {}), ('/v1', {}), ('/v1/peers', w.auth()), ('/v1/peers', {}), ('/', {}), ('/v1/', w.auth())):
            before = full_fp(w)
            resp = w.client.open(url, method='GET', headers=hdr)
            w.settle()
            res['counters']['requests'] += 1
            res['evaluations'] += 1
            res['distinct'].append('outside|%s|%s|%s' % (st, url, bool(hdr)))
            repx = dict(state=st, url=url, authenticated=bool(hdr))
            try:
                after = full_fp(w)
            except Exception as e:
                bad('outside-request-effect', ['url:' + url, 'state-unreadable'], 'after GET %s in %s the running configuration / session state cannot be read any more: %r' % (url, st, e), repx)
                break
            if after != before:
                bad('outside-request-effect', ['url:' + url], 'GET %s in %s changed the world' % (url, st), repx)
            code, jb = w.rest('GET', 'state')
            if code != 200:
                bad('outside-request-effect', ['url:' + url, 'then-state:%s' % code], 'after GET %s (answered %s) an authenticated GET state answers %s' % (url, resp.status_code, code), repx)
    # ------------------------------------------------------------ authentication / no effect / gate
    combos = [(st, r, ms, m) for st in STATES for (r, ms) in rl for m in METHODS]
    for idx, (st, rule, served, method) in enumerate(combos):
        if idx % sh['nparts'] != sh['part']:
            continue
        w = world_for(st)
        url = url_of(rule, w.peer_ip)
        short = rule.split('<peer_ip>/')[1]
        body = BODIES.get(short)
        if method == 'GET':
            # OPTIONS is answered by Flask itself; it must neither have an effect nor reveal anything, with or without credentials
            for cname, hdr in list(creds(w).items())[:3] + [('valid', w.auth())]:
                before = full_fp(w)
                resp = w.client.open(url, method='OPTIONS', headers=hdr)
                w.settle()
                after = full_fp(w)
                res['counters']['requests'] += 1
                res['evaluations'] += 1
                res['distinct'].append('%s|OPTIONS|%s|%s' % (short, cname, st))
                feats = ['rule:' + short, 'method:OPTIONS', 'cred:' + cname]
                rep = dict(state=st, rule=rule, method='OPTIONS', cred=cname)
                if after != before:
                    bad('unauthenticated-effect', feats, 'OPTIONS %s with credentials "%s" in %s changed the world' % (url, cname, st), rep)
                if cname != 'valid' and resp.status_code != 401 and resp.get_data():
                    bad('unauthenticated-disclosure', feats, 'OPTIONS %s with credentials "%s" answered %s with a body: %r' % (url, cname, resp.status_code, resp.get_data()[:80]), rep)
        for cname, hdr in creds(w).items():
            before = full_fp(w)
            code, jb = w.rest(method, url, headers=hdr, json_body=body if method in ('POST', 'PUT', 'PATCH') else None)
            after = full_fp(w)
            res['counters']['requests'] += 1
            res['evaluations'] += 1
            res['distinct'].append('%s|%s|%s|%s' % (short, method, cname, st))
            feats = ['rule:' + short, 'method:' + method, 'cred:' + cname]
            rep = dict(state=st, rule=rule, method=method, cred=cname)
            if method in served:
                if code != 401:
                    bad('unauthenticated-not-401', feats, '%s %s with credentials "%s" in %s answered %s %s' % (method, url, cname, st, code, str(jb)[:100]), rep)
                else:
                    res['counters']['unauthorized_401'] += 1
            elif code not in (401, 405):
                bad('unserved-method-status', feats, '%s %s (not served) answered %s' % (method, url, code), rep)
            if after != before:
                diff = [i for i in range(len(before)) if before[i] != after[i]]
                bad('unauthenticated-effect', feats, '%s %s with credentials "%s" in %s changed the world (fingerprint parts %s)' % (method, url, cname, st, diff), rep)
        # valid credentials: the gate
        if method in served and short in GATED and not st.startswith('ESTABLISHED'):
            before = full_fp(w)
            code, jb = w.rest(method, url, json_body=body)
            after = full_fp(w)
            res['counters']['requests'] += 1
            res['evaluations'] += 1
            feats = ['rule:' + short, 'state:' + st]
            rep = dict(state=st, rule=rule, method=method, cred='valid')
            wrote = after[2] != before[2] or after[3] != before[3] or after[4] != before[4]
            ok_status = isinstance(jb, dict) and jb.get('status') is True or (isinstance(jb, dict) and 'bin' in jb)
            if short in SEND_RULES and (wrote or ok_status):
                bad('send-outside-established', feats, '%s in %s: answered %s %s, bytes written: %s' % (short, st, code, str(jb)[:120], wrote), rep)
            elif wrote:
                bad('gated-endpoint-effect', feats, '%s in %s wrote to the wire' % (short, st), rep)
            else:
                res['counters']['gate_refusals'] += 1
        elif method not in served:
            code, jb = w.rest(method, url, json_body=body if method in ('POST', 'PUT', 'PATCH') else None)
            if code == 405:
                res['counters']['method_not_allowed'] += 1
    # ------------------------------------------------------------ a send racing the end of the session: the view has answered and
    # handed its write to the reactor thread (callFromThread) when the peer's NOTIFICATION / a framing error is processed; the
    # reactor makes the write afterwards, before the close completes.  What was answered as sent must still reach the wire
    for i in range(max(6, sh['n'] // 200)):
        w = World(local_as=65001, remote_as=65002, defer_close=True)
        tr = w.establish()
        if w.state_direct() != 'ESTABLISHED':
            continue
        path_, body_ = [('send/update', BODIES['send/update']), ('send/bin_update', {'binary_data': S.UPD_ROUTE.hex()})][i % 2]
        code0, jb0 = w.rest('POST', path_, json_body=body_)          # control: the same request, no race
        ctl = [d for _, d in tr.written][-1:] if isinstance(jb0, dict) and jb0.get('status') is True else []
        n0 = len(tr.written)
        w.lazy = True
        code, jb = w.rest('POST', path_, json_body=body_)
        how = ['cease', 'bad-marker', 'peer-update-error'][i % 3]
        w.deliver(S.MSGS['NOTI_CEASE' if how == 'cease' else ('BADMARK' if how == 'bad-marker' else 'BADLEN')][0], tr)
        w.lazy = False
        w.settle()
        res['evaluations'] += 1
        res['counters']['sends_racing_a_close'] = res['counters'].get('sends_racing_a_close', 0) + 1
        new = [d for _, d in tr.written[n0:]]
        if isinstance(jb, dict) and jb.get('status') is True and ctl and ctl[0] not in new:
            bad('send-not-faithful', ['race:write-queued-before-close', 'rule:' + path_],
                '%s answered %s while the session was ending (%s); the frame the same request wrote a moment earlier (%s...) is not among the frames written afterwards: %s' % (
                    path_, str(jb)[:60], how, ctl[0].hex()[:60], [d.hex()[:40] for d in new]), dict(race=how, path=path_))
    # ------------------------------------------------------------ successful sends
    for i in range(sh['n']):
        ibgp = rng.random() < 0.3
        as4peer = rng.random() < 0.7
        la = rng.choice([65001, 65001, 65010, 4200000000])
        cfg = dict(local_as=la, remote_as=la if ibgp else rng.choice([65002, 65009, 64512, 4200000001]))
        if rng.random() < 0.4:
            cfg['bgp_opts'] = {'rib': True}          # the Adj-RIB-Out is kept: a refused request must not reach it either
        w = World(**cfg)
        caps = [(1, struct.pack('!HBB', 1, 0, 1)), (1, struct.pack('!HBB', 2, 0, 1)), (2, b'')] + ([(65, struct.pack('!I', cfg['remote_as']))] if as4peer else []) + \
            ([(128, b'')] if rng.random() < 0.3 else [])
        tr = w.establish(asn=cfg['remote_as'], caps=caps)
        if w.state_direct() != 'ESTABLISHED':
            continue
        asn4 = bool(w.fsm.protocol.fourbytesas)
        kind = rng.choice(['update', 'update', 'update', 'mp', 'mixed', 'withdraw', 'rr', 'bin', 'bad', 'refused'])
        n0 = len(tr.written)
        fp0 = full_fp(w)
        jb = None
        others0 = sum(len(t.written) for t in w.transports() if t is not tr)
        rep = dict(kind_of_send=kind, ibgp=ibgp, as4peer=as4peer)
        res['evaluations'] += 1
        if kind in ('update', 'mp', 'mixed', 'withdraw'):
            attrs = gen.std_attrs(rng, asn4, with_ext=False)    # text -> code translation of extended communities is C17's business
            nlri, wdl = [], []
            if kind == 'update':
                attrs.setdefault(1, 0)
                attrs.setdefault(2, [[2, [64999]]] if not ibgp else [])
                attrs.setdefault(3, '10.0.0.1')
                nlri = gen.prefix_list4(rng, 6) or ['192.0.2.0/24']
                if rng.random() < 0.3:
                    wdl = gen.prefix_list4(rng, 3)
                if rng.random() < 0.08:
                    # a long request: dozens to hundreds of prefixes
                    nlri = ['10.%d.%d.0/24' % (j // 256, j % 256) for j in range(rng.choice([50, 51, 64, 100, 300]))]
                    if rng.random() < 0.5:
                        wdl = ['172.16.%d.0/24' % j for j in range(rng.choice([51, 120]))]
            elif kind == 'mp':
                fam = rng.choice(['ipv6', 'vpnv4', 'evpn', 'flowspec'])
                attrs = {1: 0, 2: [], 14: gen.mp_value(rng, fam, nmax=3)}
            elif kind == 'mixed':
                # one request carrying IPv4 prefixes (announced and/or withdrawn) next to an MP_REACH / MP_UNREACH attribute
                fam = rng.choice(['ipv6', 'vpnv4', 'evpn', 'flowspec'])
                wdmp = rng.random() < 0.4
                attrs = {1: 0, 2: [] if ibgp else [[2, [64999]]], 3: '10.0.0.1', (15 if wdmp else 14): gen.mp_value(rng, fam, withdraw=wdmp, nmax=3)}
                r_ = rng.random()
                if r_ < 0.7:
                    nlri = gen.prefix_list4(rng, 4) or ['192.0.2.0/24']
                if r_ > 0.4:
                    wdl = gen.prefix_list4(rng, 3) or ['198.51.100.0/24']
            else:
                attrs = {}
                wdl = gen.prefix_list4(rng, 5) or ['192.0.2.0/24']
            if any(isinstance(e, dict) and e.get('kind') in ('rt2', 'ro2') and not as4peer for e in attrs.get(16, [])):
                # a 4-octet-AS route target for a peer without that capability: the agent refuses (and then writes nothing)
                res['counters']['as4_community_to_2octet_peer'] = res['counters'].get('as4_community_to_2octet_peer', 0) + 1
            if any(isinstance(e, dict) and e.get('kind') in ('traffic-action',) for e in attrs.get(16, [])):
                attrs.pop(16)
            post = {'attr': to_json_attrs(attrs), 'nlri': nlri, 'withdraw': wdl}
            rep['post'] = gen.norm(post)
            code, jb = w.rest('POST', 'send/update', json_body=post)
            new = [d for _, d in tr.written[n0:]]
            ok = isinstance(jb, dict) and jb.get('status') is True
            if not ok:
                if new:
                    bad('failed-send-wrote', ['send:update'], 'send/update answered %s but wrote %d frame(s)' % (str(jb)[:100], len(new)), rep)
                continue
            res['counters']['sends_compared'] += 1
            # what the agent documents it sends: the request, plus LOCAL_PREF 100 on iBGP when attributes are given and 5 is absent
            eff = dict(attrs)
            if eff and ibgp and 5 not in eff:
                eff[5] = 100
            from yabgp.message.update import Update
            cm = {'attr': {k: ([refenc.ext_construct(e) for e in v] if k == 16 else v) for k, v in eff.items()}, 'nlri': nlri, 'withdraw': wdl}
            try:
                want = Update.construct(cm, asn4)
            except Exception as e:
                want = None
            if len(new) != 1 or new[0] != want:
                bad('send-not-faithful', ['send:update', 'ibgp:%s' % ibgp] + (['has-ext-communities'] if 16 in attrs else []),
                    'send/update answered status true; wire has %d new frame(s) %s; Update.construct of the request gives %s' % (
                        len(new), [d.hex()[:120] for d in new], want.hex()[:120] if want else None), rep)
            elif 14 not in attrs and 15 not in attrs and 16 not in attrs:
                # independent reading of the frame for IPv4 unicast + standard attributes
                body = new[0][19:]
                wl = struct.unpack('!H', body[:2])[0]
                al = struct.unpack('!H', body[2 + wl:4 + wl])[0]
                got = dict(split_attrs(body[4 + wl:4 + wl + al]))
                wantv = {k: refenc.std_attr_value(k, v, asn4) for k, v in eff.items()}
                res['counters']['reference_compared'] += 1
                if got != wantv or body[2:2 + wl] != refenc.prefix_list4(wdl) or body[4 + wl + al:] != refenc.prefix_list4(nlri):
                    bad('send-differs-from-reference', ['send:update'], 'frame on the wire carries %s / nlri %s; the request is %s' % (
                        {k: v.hex() for k, v in got.items()}, body[4 + wl + al:].hex(), json.dumps(gen.norm(post))[:300]), rep)
        elif kind == 'rr':
            afi, safi = rng.choice([(1, 1), (2, 1), (1, 128), (25, 70), (1, 133)])
            rres = rng.choice([0, 0, 1, 2, 255])
            rr_body = {'afi': afi, 'safi': safi, 'res': rres}
            if rres == 0 and rng.random() < 0.3:
                rr_body.pop('res')            # the reserved octet defaults to 0
            code, jb = w.rest('POST', 'send/route-refresh', json_body=rr_body)
            new = [d for _, d in tr.written[n0:]]
            advertised = (afi, safi) in ((1, 1), (2, 1))
            tc = 128 if any(c[0] == 128 for c in caps) else 5
            ok = isinstance(jb, dict) and jb.get('status') is True
            res['counters']['sends_compared'] += 1
            if ok and (len(new) != 1 or new[0] != refenc.route_refresh(afi, safi, rres, tc)):
                bad('send-not-faithful', ['send:route-refresh'] + (['res:nonzero'] if rres else []), 'route-refresh %d/%d (reserved octet %d) answered status true; wire has %s, expected %s' % (
                    afi, safi, rres, [d.hex() for d in new], refenc.route_refresh(afi, safi, rres, tc).hex()), rep)
            if ok != advertised:
                bad('route-refresh-gate', ['advertised:%s' % advertised], 'route-refresh for %d/%d (peer advertised it: %s) answered %s' % (afi, safi, advertised, str(jb)[:100]), rep)
            if not ok and new:
                bad('failed-send-wrote', ['send:route-refresh'], 'route-refresh answered %s but wrote %s' % (str(jb)[:100], [d.hex() for d in new]), rep)
        elif kind == 'bin':
            payload = refenc.update({1: 0, 2: [[2, [rng.choice(gen.ASN2)]]], 3: gen.ipv4(rng)}, gen.prefix_list4(rng, 4) or ['192.0.2.0/24'], asn4=asn4)
            human = rng.random() < 0.3
            hx = payload.hex()
            if human:
                pairs = ' '.join(hx[i:i + 2] for i in range(0, len(hx), 2))
                data, q = [pairs[i:i + 24] for i in range(0, len(pairs), 24)], {'format': 'human'}
            else:
                data, q = hx, None
            code, jb = w.rest('POST', 'send/bin_update', json_body={'binary_data': data}, query=q)
            new = [d for _, d in tr.written[n0:]]
            res['counters']['sends_compared'] += 1
            if not (isinstance(jb, dict) and jb.get('status') is True and new == [payload]):
                bad('send-not-faithful', ['send:bin_update', 'human:%s' % human], 'bin_update of %s answered %s; wire has %s' % (hx[:80], str(jb)[:100], [d.hex()[:80] for d in new]), rep)
        elif kind == 'refused':
            # well-formed JSON the agent cannot or will not send: prefixes without attributes, an attribute value it cannot encode,
            # an empty request - the answer is a failure and nothing may be written (tables and counters: C19 / C18)
            post = rng.choice([{'nlri': gen.prefix_list4(rng, 3) or ['192.0.2.0/24']}, {'attr': {}, 'nlri': ['192.0.2.0/24']},
                               {'attr': {'1': 0, '2': [], '3': 'not-an-address'}, 'nlri': ['192.0.2.0/24']}, {},
                               {'attr': {'1': 0, '2': [], '3': '10.0.0.1', '8': ['NO-SUCH-COMMUNITY']}, 'nlri': ['192.0.2.0/24']},
                               {'attr': {'1': 0, '2': [], '3': '10.0.0.1', '16': ['no-such-kind:1:1']}, 'nlri': ['192.0.2.0/24']},
                               {'attr': {'1': 0, '2': [], '3': '10.0.0.1'}, 'nlri': ['300.1.2.0/24']}])
            rep['post'] = post
            code, jb = w.rest('POST', 'send/update', json_body=post)
            new = [d for _, d in tr.written[n0:]]
            res['counters']['refused_requests'] = res['counters'].get('refused_requests', 0) + 1
            if isinstance(jb, dict) and jb.get('status') is True and not new:
                bad('success-without-send', ['send:update'], 'send/update of %s answered status true but nothing was written' % json.dumps(post)[:200], rep)
        else:
            # malformed requests must not write anything
            post = rng.choice([{'binary_data': 'abc'}, {'binary_data': ''}, {'binary_data': 'zz'}, {'binary_data': 12}])
            q = None
            if rng.random() < 0.5:
                # a 'human' dump (lines of hex pairs) that lost a digit or caught a stray character: refused, nothing written
                good = refenc.update({1: 0, 2: [[2, [65002]]], 3: '10.0.0.1'}, ['192.0.2.0/24'], asn4=asn4).hex()
                pairs = ' '.join(good[i_:i_ + 2] for i_ in range(0, len(good), 2))
                k_ = rng.randrange(40, len(pairs) - 2)
                broken = rng.choice([pairs[:k_] + pairs[k_ + 1:] if pairs[k_] != ' ' else pairs[:k_ + 1] + pairs[k_ + 2:], pairs[:k_] + 'g' + pairs[k_ + 1:] if pairs[k_] != ' ' else pairs + ' x', pairs + ' f'])
                post, q = {'binary_data': [broken[i_:i_ + 48] for i_ in range(0, len(broken), 48)]}, {'format': 'human'}
            code, jb = w.rest('POST', 'send/bin_update', json_body=post, query=q)
            new = [d for _, d in tr.written[n0:]]
            if new or (isinstance(jb, dict) and jb.get('status') is True):
                bad('failed-send-wrote', ['send:bin_update-malformed'], 'malformed bin_update %s answered %s and wrote %d frames' % (post, str(jb)[:100], len(new)), rep)
        if not (isinstance(jb, dict) and jb.get('status') is True) and len(tr.written) != n0:
            bad('failed-send-wrote', ['kind:' + kind], 'a %s request answered %s but wrote %d frame(s)' % (kind, str(jb)[:100], len(tr.written) - n0), rep)
        if kind in ('update', 'bin', 'rr') and isinstance(jb, dict) and jb.get('status') is True and rng.random() < 0.25:
            # the session ends right after a successful send: the very next request (same instant) must be refused and written nowhere
            how = rng.choice(['peer-close', 'cease', 'bad-marker'])
            # ... half of the time before the reactor has finished that instant (zero-delay calls, close completions still pending)
            sub = rng.random() < 0.5
            w.lazy = sub
            if how == 'peer-close':
                w.peer_close(tr, clean=True)
            elif how == 'cease':
                w.deliver(S.MSGS['NOTI_CEASE'][0], tr)
            else:
                w.deliver(S.MSGS['BADMARK'][0], tr)
            w.lazy = False
            res['counters']['requests_inside_the_instant_of_a_close'] = res['counters'].get('requests_inside_the_instant_of_a_close', 0) + int(sub)
            nw = sum(len(t.written) for t in w.transports())
            for path_, body_ in (('send/update', BODIES['send/update']), ('send/route-refresh', {'afi': 1, 'safi': 1, 'res': 0}),
                                 ('send/bin_update', {'binary_data': S.UPD_ROUTE.hex()})):
                code2, jb2 = w.rest('POST', path_, json_body=body_)
                res['counters']['gate_refusals'] += 1
                if (isinstance(jb2, dict) and jb2.get('status') is True) or sum(len(t.written) for t in w.transports()) != nw:
                    bad('send-outside-established', ['rule:' + path_, 'state:just-dropped', 'how:' + how] + (['sub-instant'] if sub else []),
                        '%s right after the session ended (%s, state %s): answered %s %s, bytes written: %d' % (
                            path_, how, w.state_direct(), code2, str(jb2)[:80], sum(len(t.written) for t in w.transports()) - nw), dict(rep, then=path_, how=how))
                    break
        if sum(len(t.written) for t in w.transports() if t is not tr) != others0:
            bad('send-wrote-elsewhere', [], 'a send wrote to a connection other than the current one', rep)
    res['violations'] = list(V.values())
    res['distinct'] += ['send|%d|%d' % (sh['seed'], i) for i in range(sh['n'])]
    res['evaluations'] = max(res['evaluations'], len(res['distinct']))
    res['samples'] = [dict(rule='/v1/peer/<peer_ip>/send/update', method='POST', cred='wrong-password', state='ESTABLISHED')]
    return res


def floors(m, tier):
    c = m['counters']
    unmet = []
    for k, n in (('unauthorized_401', 800), ('gate_refusals', 30), ('sends_compared', 1500), ('reference_compared', 300)):
        if c.get(k, 0) < n:
            unmet.append('%s below %d' % (k, n))
    if len(m['sets'].get('rules', [])) < 8:
        unmet.append('fewer than 8 rules enumerated')
    return unmet


def replay(rep):
    return []
