"""C03  Hold and keepalive timers keep exactly the negotiated contract."""
import random

from vlib import budget

from vlib import session as S
from vlib import wire
from vlib.world import World, peer_open, KEEPALIVE, reactor

PROPERTY = 'C03'
LEVEL = 'exploration'
TECHNIQUE = 'runtime monitoring: offline checker over the timestamped wire tap (virtual clock) against the delivered arrival schedule, both orders of same-instant expiry/arrival'
RULE = ('configured hold x proposed hold from {0,3,4,9,30,90,180,65535} x arrival schedules (gaps H-e, H, H+e, bursts, long runs, '
        'silence, ROUTE-REFRESH only, malformed UPDATEs, agent-side REST UPDATEs), each executed on the simulated reactor with the '
        'arrival-first and the timer-first order when an arrival coincides with the hold deadline; the checker predicts the exact '
        'expiry instant and bounds every gap between KEEPALIVEs of the agent by H/3 (operator-requested UPDATE, ROUTE-REFRESH and binary sends interleaved: they do not stand in for a KEEPALIVE); distinct = distinct (configured, proposed, schedule shape, order)')
ASSUMPTIONS = ['simulated Twisted reactor with virtual time (verif/shims); 1 us tolerance for float keepalive periods',
               'reference deframer vlib/wire.py reads the OPEN hold times from the wire']
SHARD_TIMEOUT = {'quick': 240, 'thorough': 1500}
HOLDS = [0, 3, 4, 5, 7, 8, 9, 10, 20, 30, 90, 180, 240, 65535]
EPS = 1e-6
UPD_BAD = S.frame(2, b'\x00\x00\x00\x04\x40\x01\x01\x07')     # ORIGIN value 7: malformed body, well framed


def schedules(H, rng, n_random):
    """yield (name, [(gap, kind)]) - gaps are relative to the previous arrival (first: to the KEEPALIVE that establishes)."""
    out = []
    if H == 0:
        out.append(('silence', []))
        out.append(('sparse', [(100.0, 'KA'), (300.0, 'UPD'), (500.0, 'KA')]))
        out.append(('burst', [(0.0, 'KA')] * 5 + [(250.0, 'UPD')]))
        for i in range(n_random):
            out.append(('rand%d' % i, [(rng.choice([0.0, 1.0, 30.0, 239.0, 240.0, 241.0, 600.0]), rng.choice(['KA', 'UPD', 'UPDBAD', 'UPDUNK', 'UPDOVR', 'RR']))
                                       for _ in range(rng.randint(1, 12))]))
        return out
    e = 0.001
    out.append(('silence', []))
    for g, nm in ((H - e, 'below'), (float(H), 'at'), (H + e, 'above'), (H - 0.5, 'below.5'), (H + 0.5, 'above.5'), (H / 3.0, 'third')):
        if g <= 0:
            continue
        out.append((nm + '-KA', [(g, 'KA')] * 3))
        out.append((nm + '-UPD', [(g, 'UPD')] * 3))
        out.append((nm + '-alt', [(g, 'KA'), (g, 'UPD'), (g, 'UPDBAD'), (g, 'UPDUNK'), (g, 'UPDOVR'), (g, 'UPDLSU'), (g, 'KA')]))
        out.append((nm + '-UPDUNK', [(g, 'UPDUNK')] * 3))
    out.append(('burst', [(0.0, 'KA')] * 4 + [(0.0, 'UPD')] * 4 + [(H - e, 'KA')]))
    out.append(('long-run', [(H / 2.0, 'KA' if i % 2 else 'UPD') for i in range(200)]))
    if H in (3, 9, 30):
        # more than a thousand UPDATEs, each arriving 0.6 H after the one before: every single one has to restart the timer
        out.append(('very-long-run', [(0.6 * H, 'UPD' if i % 7 else 'UPDUNK') for i in range(1100)]))
    for i_ in range(len(S.LENGTH_EDGE)):
        out.append(('length-edge-%d' % i_, [(H / 2.0, 'KA'), (H - e, 'LEN%d' % i_), (H - e, 'LEN%d' % i_)]))
    out.append(('rr-only', [(H / 2.0, 'RR')] * 5))
    out.append(('rr-then-ka', [(H / 2.0, 'RR'), (H / 2.0 - e, 'KA'), (H / 2.0, 'RR'), (H / 2.0, 'RR')]))
    out.append(('rest-updates', [(H / 3.0, 'REST'), (H / 4.0, 'KA'), (H / 3.0, 'REST'), (H - e, 'UPD'), (H / 5.0, 'REST')]))
    out.append(('rest-updates-often', [(H / 4.0, 'REST' if i % 4 else 'KA') for i in range(16)]))
    out.append(('rest-sends-mixed', [(H / 5.0, ('REST', 'RESTRR', 'RESTBIN', 'KA')[i % 4]) for i in range(16)]))
    gaps = [0.0, e, H / 3.0, H / 2.0, H - 1.0, H - e, float(H), H + e, H + 1.0, 2.0 * H]
    for i in range(n_random):
        out.append(('rand%d' % i, [(max(0.0, rng.choice(gaps)), rng.choice(['KA', 'KA', 'UPD', 'UPDBAD', 'UPDUNK', 'RR', 'REST', 'RESTRR', 'RESTBIN']))
                                   for _ in range(rng.randint(1, 10))]))
    return out


def run_case(cfg_hold, prop_hold, sched, order, phase='established', ka_delay=0.0):
    """Returns (violations, info).  order: 'msg' = arrival first at a tie, 'timer' = timer first."""
    w = World(time_opts={'hold_time': cfg_hold})
    V = []

    def bad(kind, detail, feats=()):
        V.append(dict(kind=kind, detail=detail + ' [configured %d, proposed %d]' % (cfg_hold, prop_hold), features=sorted(set(feats) | {'H0' if min(cfg_hold, prop_hold) == 0 else 'Hpos'})))

    w.tick()
    tr = w.accept()
    if tr is None:
        return [dict(kind='harness', detail='no connection attempt at boot', features=[])], {}
    t_conn = w.now()
    info = dict(emissions=0, expiries=0, ties=0, max_gap_ratio=0.0, expiry_err=0.0)
    if phase == 'opensent':
        # the peer never sends an OPEN: large hold time of 240 s
        w.advance(400)
        fr = wire.frames_of_writes(tr.written)
        exp = [f for f in fr if f[1] == 3]
        if not exp or wire.summarize(exp[0])[:3] != (3, 4, 0) or abs(exp[0][0] - (t_conn + 240)) > EPS:
            bad('opensent-limit', 'waiting for OPEN: expected NOTIFICATION(4,0) at %s, wire has %s' % (
                t_conn + 240, [(f[0], wire.summarize(f)) for f in fr]), ['opensent'])
        elif tr.t_lose is None or abs(tr.t_lose - (t_conn + 240)) > EPS:
            bad('opensent-limit', 'no close at the 240 s limit', ['opensent'])
        info['expiries'] = 1
        return V, info
    w.deliver(peer_open(hold=prop_hold), tr)
    t_open = w.now()
    frames = wire.frames_of_writes(tr.written)
    o = wire.parse_open(frames[0][2]) if frames and frames[0][1] == 1 else None
    if o is None:
        return [dict(kind='harness', detail='no OPEN on the wire', features=[])], info
    H = min(o['hold'], prop_hold)
    if H in (1, 2):
        return [], info
    # the hold timer runs from the OPEN; the KEEPALIVE that establishes the session is the first arrival of the schedule
    D = (w.now() + H) if H else None
    D_hi = D
    sched = [(ka_delay, 'KA')] + list(sched)
    expected_expiry = None
    arrivals = 0
    horizon_extra = 300.0 if H == 0 else min(3.0 * H + 1.0, 2000.0)
    for gap, kind in sched:
        t = w.now() + gap
        if H and t > D + EPS:
            break                       # the session must expire before this arrival
        tie = bool(H) and abs(t - D) <= EPS
        if tie:
            info['ties'] += 1
            if order == 'timer':
                break                   # run the timer first: expiry expected at D
            reactor.advance_before(t)
        else:
            w.advance(t - w.now())
        if not tr.connected or tr.disconnecting:
            break
        if kind in ('REST', 'RESTRR', 'RESTBIN'):
            m_, p_, b_ = S.REST_SENDS[dict(REST='R_UPD', RESTRR='R_RR', RESTBIN='R_BIN')[kind]]
            w.rest(m_, p_, json_body=b_)
            continue
        data = dict({'LEN%d' % i_: S.MSGS[n_][0] for i_, n_ in enumerate(S.LENGTH_EDGE)}, KA=KEEPALIVE, UPD=S.UPD_EMPTY, UPDBAD=UPD_BAD, UPDUNK=S.UPD_UNKFAM, UPDOVR=S.MSGS['UPD_wdoverrun'][0], UPDLSU=S.MSGS['UPD_lsunreach'][0], RR=S.MSGS['RR'][0])[kind]
        w.deliver(data, tr)
        arrivals += 1
        if H:
            if kind == 'RR':
                D_hi = max(D_hi, t + H)
            else:
                D = t + H
                D_hi = max(D, t + H) if D_hi < D else max(D_hi, D)
                D_hi = D if kind != 'RR' else D_hi
    end = w.now() + horizon_extra if not H else max(D_hi, w.now()) + H + 1.0
    w.advance(end - w.now())
    # ---------------------------------------------------------------- offline checker
    fr = wire.frames_of_writes(tr.written)
    notifs = [(f[0], wire.summarize(f)) for f in fr if f[1] == 3]
    # the statement says KEEPALIVE: an UPDATE sent on the operator's behalf does not stand in for one
    ka_upd = [f[0] for f in fr if f[1] == 4]
    info['emissions'] = len(ka_upd)
    feats = ['order:' + order]
    if H == 0:
        if len([f for f in fr if f[1] == 4]) != 1:
            bad('h0-keepalives', 'H=0: %d KEEPALIVEs on the wire (expected only the OPEN confirmation): %s' % (
                len([f for f in fr if f[1] == 4]), [(f[0], f[1]) for f in fr]), feats)
        if notifs or tr.t_lose is not None:
            bad('h0-expiry', 'H=0: session ended (%s, close at %s) although silence never ends it' % (notifs, tr.t_lose), feats)
        return V, info
    # hold expiry
    hold = [n for n in notifs if n[1][:3] == (3, 4, 0)]
    other = [n for n in notifs if n[1][:3] != (3, 4, 0)]
    if other:
        bad('unexpected-notification', 'agent sent %s during a schedule of valid traffic' % (other,), feats)
    if not hold:
        bad('no-expiry', 'nothing arrived after t=%s but no NOTIFICATION(4,0) by t=%s (H=%s)' % (D - H, w.now(), H), feats)
    else:
        tx = hold[0][0]
        info['expiries'] = 1
        lo, hi = D, max(D, D_hi)
        if tx < lo - EPS or tx > hi + EPS:
            info['expiry_err'] = min(abs(tx - lo), abs(tx - hi))
            kind = 'early-expiry' if tx < lo else 'late-expiry'
            bad(kind, 'NOTIFICATION(4,0) at %s, expected at %s%s (H=%s, last KEEPALIVE/UPDATE at %s)' % (
                tx, lo, '' if hi == lo else '..%s' % hi, H, D - H), feats)
        if tr.t_lose is None or abs(tr.t_lose - tx) > EPS:
            bad('expiry-no-close', 'hold expiry at %s but close at %s' % (tx, tr.t_lose), feats)
    # emissions at least every H/3 while the session is up
    t_end = tr.t_lose if tr.t_lose is not None else w.now()
    pts = ka_upd + [t_end]
    for a, b in zip(pts, pts[1:]):
        ratio = (b - a) / (H / 3.0)
        info['max_gap_ratio'] = max(info['max_gap_ratio'], ratio)
        if b - a > H / 3.0 + EPS:
            bad('emission-gap', 'no KEEPALIVE from the agent between %s and %s (H/3=%s)' % (a, b, H / 3.0), feats)
            break
    return V, info


def fuzz_case(body, H=9):
    """a well-framed UPDATE with a hostile body arrives mid-session: unless the agent ends the session on it, it is an
    UPDATE that arrived - the hold timer runs H seconds from it (returns violations, outcome)"""
    w = World(time_opts={'hold_time': 180})
    w.tick()
    tr = w.accept()
    w.deliver(peer_open(hold=H), tr)
    w.deliver(KEEPALIVE, tr)
    w.advance(H / 2.0)
    n0 = len(tr.written)
    t = w.now()
    w.deliver(S.frame(2, body), tr)
    fr = wire.frames_of_writes(tr.written[n0:])
    if tr.disconnecting or not tr.connected or any(f[1] == 3 for f in fr):
        return [], 'ended'
    w.advance(2 * H + 1)
    fr = wire.frames_of_writes(tr.written[n0:])
    hold = [f[0] for f in fr if wire.summarize(f)[:3] == (3, 4, 0)]
    if not hold or abs(hold[0] - (t + H)) > EPS:
        return [dict(kind='fuzzed-update-hold', features=['Hpos'],
                     detail='an UPDATE with body %s arrived at t=%s and the session went on, but Hold Timer Expired came at %s, expected %s (H=%s)'
                     % (body.hex()[:120], t, hold[0] if hold else None, t + H, H))], 'continued'
    return [], 'continued'


def plan(tier, seed):
    pairs = [(c, p) for c in HOLDS for p in HOLDS]
    nsh = 16
    return [dict(pairs=pairs[i::nsh], seed=seed * 100 + i, n_random=6 if tier == 'quick' else 300,
                 fuzz=800 if tier == 'quick' else 20000) for i in range(nsh)]


def run_shard(sh):
    res = dict(evaluations=0, counters=dict(emissions_checked=0, expiries_checked=0, same_instant_ties=0, opensent_limit_checks=0),
               maxima={}, sets={}, distinct=[], samples=[], violations=[])
    viol = {}
    rng = random.Random(sh['seed'])
    for c, p in sh['pairs']:
        H = min(c, p)
        if H in (1, 2):
            continue
        V, info = run_case(c, p, [], 'msg', phase='opensent')
        res['counters']['opensent_limit_checks'] += 1
        res['evaluations'] += 1
        for v in V:
            viol.setdefault((v['kind'], tuple(v['features'][:1])), dict(v, replay=dict(cfg_hold=c, prop_hold=p, sched=[], order='msg', phase='opensent')))
        scheds = [(name, sched, 0.0) for name, sched in schedules(H, rng, sh['n_random'])]
        if H:
            e = 0.001
            for d in (H / 3.0 - e, H / 3.0 + e, H / 2.0, H - e, float(H), H + e):
                scheds.append(('late-first-keepalive', [(H / 2.0, 'KA'), (H - e, 'UPD')], d))
                scheds.append(('late-first-keepalive-then-gap', [(H - d / 2.0, 'KA')] if d < H else [], d))
            for i in range(sh['n_random']):
                scheds.append(('rand-late%d' % i, [(rng.choice([H / 3.0, H / 2.0, H - e, float(H)]), rng.choice(['KA', 'UPD'])) for _ in range(3)],
                               rng.choice([e, H / 4.0, H / 2.0, H - e])))
        else:
            scheds.append(('late-first-keepalive', [(100.0, 'KA')], 50.0))
            scheds.append(('very-late-first-keepalive', [(100.0, 'KA')], 300.0))
        for name, sched, ka_delay in scheds:
            for order in ('msg', 'timer'):
                V, info = run_case(c, p, sched, order, ka_delay=ka_delay)
                if order == 'timer' and not info.get('ties'):
                    continue            # identical to the 'msg' run
                res['evaluations'] += 1
                res['distinct'].append('%d|%d|%s|%s|%s' % (c, p, name if not name.startswith('rand') else repr(sched), order, ka_delay))
                res['counters']['emissions_checked'] += info.get('emissions', 0)
                res['counters']['expiries_checked'] += info.get('expiries', 0)
                res['counters']['same_instant_ties'] += info.get('ties', 0)
                k = 'max_gap_over_H3'
                res['maxima'][k] = max(res['maxima'].get(k, 0), round(info.get('max_gap_ratio', 0), 9))
                res['maxima']['max_expiry_time_error'] = max(res['maxima'].get('max_expiry_time_error', 0), info.get('expiry_err', 0))
                for v in V:
                    key = (v['kind'], tuple(x for x in v['features'] if x in ('H0', 'Hpos', 'opensent')))
                    viol.setdefault(key, dict(v, replay=dict(cfg_hold=c, prop_hold=p, sched=sched, order=order, ka_delay=ka_delay)))
        res['sets'].setdefault('hold_pairs', []).append('%d/%d' % (c, p))
    # ---- hostile UPDATE bodies as arrivals
    from vlib import corpus, mutate
    upd = [b for t, b in corpus.messages() if t == 2]
    res['counters']['fuzzed_updates_continued'] = 0
    res['counters']['fuzzed_updates_ended_session'] = 0
    for i in range(sh.get('fuzz', 0)):
        if budget.expired():
            break
        body = mutate.random_mutation(rng.choice(upd), rng)[:4077]
        if len(body) < 4:
            continue          # shorter than an UPDATE can be (23 octets with the header): not an UPDATE that arrived
        V, out = fuzz_case(body)
        res['evaluations'] += 1
        res['distinct'].append('fuzz|%d' % hash(body))
        res['counters']['fuzzed_updates_continued' if out == 'continued' else 'fuzzed_updates_ended_session'] += 1
        for v in V:
            viol.setdefault((v['kind'], 'fuzz'), dict(v, replay=dict(fuzz_body=body.hex())))
    if sh['pairs']:
        c, p = sh['pairs'][0]
        res['samples'].append(dict(configured=c, proposed=p, schedule=schedules(min(c, p), random.Random(1), 1)[-1][1]))
    res['violations'] = list(viol.values())
    return res


def floors(m, tier):
    c = m['counters']
    unmet = []
    if c.get('expiries_checked', 0) < 200:
        unmet.append('fewer than 200 hold expiries checked')
    if c.get('emissions_checked', 0) < 2000:
        unmet.append('fewer than 2000 emissions checked')
    if c.get('same_instant_ties', 0) < 20:
        unmet.append('fewer than 20 same-instant ties exercised')
    return unmet


def replay(rep):
    if 'fuzz_body' in rep:
        return fuzz_case(bytes.fromhex(rep['fuzz_body']))[0]
    V, info = run_case(rep['cfg_hold'], rep['prop_hold'], [tuple(x) for x in rep['sched']], rep['order'], rep.get('phase', 'established'),
                       ka_delay=rep.get('ka_delay', 0.0))
    return V
