"""C10  Hostile peer input is contained: no crash, no hang, no collateral damage."""
import json
import random
import struct

from vlib import session as S
from vlib import wire, corpus, mutate
from vlib.world import World, peer_open, KEEPALIVE, frame, reactor, CONF
from vlib.meter import METER

PROPERTY = 'C10'
LEVEL = 'exploration'
TECHNIQUE = 'runtime monitoring with hostile-input injection: mutated/structure-aware message bodies delivered to live sessions; escape recorder on dataReceived and timer callbacks, reports-per-frame counter, work meter, known-good probe comparison, reconnect-pending continuation'
RULE = ('well-framed messages (UPDATE, OPEN, NOTIFICATION, ROUTE-REFRESH, KEEPALIVE) whose bodies are mutated from every byte string '
        'in the unit tests (whole messages, and attribute values re-wrapped under every attribute type code the decoder handles): '
        'single-octet edits, length-field edits, truncations, TLV splices, random mutations; each delivered in OpenSent, OpenConfirm and '
        'Established, on sessions with a 4-octet-AS and a 2-octet-AS peer, plus valid-looking OPENs with other capability sets; a session '
        'that survives in OpenSent/OpenConfirm is completed by the peer; then a known-good probe sequence (3 UPDATEs, ROUTE-REFRESH, KEEPALIVE), 40 s of timers and, if the session is gone, '
        'idle-hold time to see the reconnect; plus history independence of the decoders: one list of UPDATE bodies (unit-test corpus, every BGP-LS '
        'NLRI under every protocol-id with and without a link-state attribute, mutations) is decoded by fresh interpreters front to back, '
        'back to front and shuffled - every body must decode the same in all three; distinct = distinct (type, body, state)')
ASSUMPTIONS = ['simulated reactor/transport (verif/shims) records exceptions escaping dataReceived / timer callbacks',
               'line budget per dataReceived 5000 + 400*octets + 3000*frames']
SHARD_TIMEOUT = {'quick': 400, 'thorough': 2400}
STATES = ['OPENSENT', 'OPENCONFIRM', 'ESTABLISHED']
REPORTS = ('update_received', 'on_update_error', 'open_received', 'notification_received', 'route_refresh_received', 'keepalive_received')
ATTR_FLAGS = {1: 0x40, 2: 0x40, 3: 0x40, 4: 0x80, 5: 0x40, 6: 0x40, 7: 0xc0, 8: 0xc0, 9: 0x80, 10: 0x80, 14: 0x80, 15: 0x80,
              16: 0xc0, 17: 0xc0, 18: 0xc0, 22: 0xc0, 23: 0xc0, 29: 0x80, 32: 0xc0, 40: 0xc0, 99: 0xc0}
_state = {}


CAPS_AS2 = [(1, struct.pack('!HBB', 1, 0, 1)), (2, b'')]          # a peer without the 4-octet-AS capability
UPD_ROUTE_AS2 = frame(2, b'\x00\x00' + struct.pack('!H', 4 + 7 + 7) + b'\x40\x01\x01\x00' + b'\x40\x02\x04\x02\x01' +
                      struct.pack('!H', 65002) + b'\x40\x03\x04\x0a\x00\x00\x02' + b'\x18\xc0\x00\x02')


def std_open(as4=True):
    return peer_open() if as4 else peer_open(caps=CAPS_AS2)


def world_in(state, as4=True):
    w = World()
    w.tick()
    tr = w.accept()
    if state in ('OPENCONFIRM', 'ESTABLISHED'):
        w.deliver(std_open(as4), tr)
    if state == 'ESTABLISHED':
        w.deliver(KEEPALIVE, tr)
    return w, tr


def norm(x):
    return json.loads(json.dumps(x, default=repr, sort_keys=True))


def reports_of(w, n0):
    return [(e[0],) + tuple(e[2:]) for e in w.handler.ev[n0:] if e[0] in REPORTS]


def probes(as4=True):
    key = 'probes%s' % as4
    if key in _state:
        return _state[key]
    cands = [S.UPD_ROUTE if as4 else UPD_ROUTE_AS2]
    for t, b in corpus.messages():
        if t == 2 and len(cands) < 12:
            cands.append(frame(2, b))
    good = []
    for c in cands:
        w, tr = world_in('ESTABLISHED', as4)
        n0 = len(w.handler.ev)
        w.deliver(c, tr)
        r = reports_of(w, n0)
        if len(r) == 1 and r[0][0] == 'update_received' and w.state_direct() == 'ESTABLISHED':
            good.append(c)
        if len(good) == 3:
            break
    pr = good + [S.MSGS['RR'][0], KEEPALIVE]
    w, tr = world_in('ESTABLISHED', as4)
    n0 = len(w.handler.ev)
    for p in pr:
        w.deliver(p, tr)
    _state[key] = (pr, norm(reports_of(w, n0)))
    return _state[key]


def open_variants():
    """valid-looking OPENs of the configured peer AS with other capability sets / hold times / identifiers"""
    mp = lambda a, sa: (1, struct.pack('!HBB', a, 0, sa))
    capsets = [
        'default', CAPS_AS2, [], [(65, struct.pack('!I', 65002))], [mp(1, 1)], [mp(2, 1), (2, b''), (65, struct.pack('!I', 65002))],
        [mp(1, 1), (65, struct.pack('!I', 65002)), (69, struct.pack('!HBB', 1, 1, 3))], [mp(1, 1), (69, struct.pack('!HBB', 1, 1, 1))],
        [mp(1, 1), (2, b''), (128, b''), (70, b''), (64, b'\x00\x78')], [mp(1, 133), mp(1, 128), mp(1, 4), (65, struct.pack('!I', 65002))],
        [mp(1, 1), (65, struct.pack('!I', 65003))], [mp(1, 1), (5, struct.pack('!HHH', 1, 1, 2)), (65, struct.pack('!I', 65002))],
    ]
    out = []
    for c in capsets:
        for hold in (90, 0, 3, 180):
            for bid in (0x0a000002, 0x0a000063):
                out.append(peer_open(caps=c, hold=hold, bid=bid)[19:])
    return out



def wrap_attr(code, value):
    fl = ATTR_FLAGS.get(code, 0xc0)
    if len(value) > 255:
        return struct.pack('!BBH', fl | 0x10, code, len(value)) + value
    return struct.pack('!BBB', fl, code, len(value)) + value


def update_body(attrs, nlri=b'', wd=b''):
    return struct.pack('!H', len(wd)) + wd + struct.pack('!H', len(attrs)) + attrs + nlri


def gen_cases(rng, n, part, nparts):
    """yield (type, body)"""
    items = [b for _, b in corpus.harvest()]
    msgs = corpus.messages()
    base_attrs = wrap_attr(1, b'\x00') + wrap_attr(2, b'') + wrap_attr(3, b'\x0a\x00\x00\x02')
    k = 0
    # 1. whole corpus messages, every single-octet edit / truncation / length edit (deterministic part, sliced over shards)
    det = []
    for t, b in msgs:
        det.append((t, b))
        for d in mutate.truncations(b):
            det.append((t, d))
        for d in mutate.byte_edits(b, [0, 1, 0x7f, 0x80, 0xff]):
            det.append((t, d))
    # 2. every corpus literal wrapped under every attribute code
    for b in items:
        if len(b) <= 1024:
            for code in ATTR_FLAGS:
                det.append((2, update_body(base_attrs + wrap_attr(code, b), b'\x18\xc0\x00\x02')))
    # 2a. message types the agent does not know, with a body
    for t_ in (0, 6, 7, 9, 127, 129, 200, 255):
        for b_ in (b'', b'\x00\x01\x00\x01', bytes(range(40))):
            det.append((t_, b_))
    # 2b. OPENs a peer could send again, with other capability sets (a second OPEN must not re-negotiate anything)
    for b in open_variants():
        det.append((1, b))
    for i, c in enumerate(det):
        if i % nparts == part:
            yield c
    # 3. random / structure-aware
    for _ in range(n):
        r = rng.random()
        if r < 0.35:
            t, b = rng.choice(msgs)
            yield t, mutate.random_mutation(b, rng)[:4077]
        elif r < 0.7:
            code = rng.choice(list(ATTR_FLAGS))
            v = mutate.random_mutation(rng.choice(items), rng)[:3000]
            attrs = base_attrs + wrap_attr(code, v)
            if rng.random() < 0.3:
                attrs += wrap_attr(rng.choice(list(ATTR_FLAGS)), rng.choice(items)[:1000])
            yield 2, update_body(attrs, rng.choice([b'', b'\x18\xc0\x00\x02', b'\x00', b'\x21\x01\x02\x03\x04\x05']))[:4077]
        elif r < 0.8:
            # TLV splice inside link-state / prefix-sid / mp_reach values
            a, b = rng.choice(items), rng.choice(items)
            yield 2, update_body(base_attrs + wrap_attr(rng.choice([14, 15, 29, 40, 23, 16]), mutate.splice(a, b, rng)[:3000]))
        elif r < 0.9:
            yield rng.choice([1, 3, 5, 128, 4, rng.randrange(256)]), mutate.random_mutation(rng.choice(items), rng)[:1000]
        else:
            t, b = rng.choice(msgs)
            if len(b) > 2:
                i = rng.randrange(len(b) - 1)
                b = b[:i] + struct.pack('!H', rng.choice([0, 1, 255, 256, len(b) - i, 4096, 65535])) + b[i + 2:]
            yield t, b


def run_case(typ, body, state, stats, V, as4=True):
    body = body[:4077]
    fr = frame(typ, body)
    w, tr = world_in(state, as4)
    feats = ['state:' + state, 'type:%d' % typ] + ([] if as4 else ['peer:2-octet-as'])
    rep = dict(type=typ, body=body.hex(), state=state, as4=as4)
    n0 = len(w.handler.ev)
    budget = 5000 + 400 * len(fr) + 3000
    res, val, lines = METER.run(tr.sim_deliver, fr, budget=budget)
    stats['max_lines'] = max(stats['max_lines'], lines)
    if res == 'budget':
        V.append(dict(kind='work-budget', features=feats, detail='dataReceived exceeded %d lines on a %d octet frame' % (budget, len(fr)), replay=rep))
        return
    w.settle()
    if reactor.escaped:
        V.append(dict(kind='escaped-exception', features=feats + ['where:' + reactor.escaped[0][0]],
                      detail='unhandled %s' % (reactor.escaped[0],), replay=rep))
        return
    r = reports_of(w, n0)
    stats['reports_hist'][min(len(r), 3)] += 1
    if len(r) > 1:
        V.append(dict(kind='multiple-reports', features=feats, detail='one frame produced reports %s' % [x[0] for x in r], replay=rep))
    if len(r) == 1 and r[0][0] == 'on_update_error':
        stats['error_reports'] += 1
        hexs = r[0][1].get('hex') if isinstance(r[0][1], dict) else None
        if hexs != repr(body):
            V.append(dict(kind='error-report-without-raw-bytes', features=feats,
                          detail='malformed-UPDATE report carries %r, not the raw body' % (str(hexs)[:80],), replay=rep))
    st = w.state_direct()
    outcome = 'closed' if (tr.disconnecting or not tr.connected) else ('decoded' if r and r[0][0] != 'on_update_error' else
                                                                       'error-report' if r else 'ignored')
    stats['outcomes'][outcome] = stats['outcomes'].get(outcome, 0) + 1
    if typ == 2 and state == 'ESTABLISHED' and len(body) >= 4:       # below 23 octets it is a header error, not an UPDATE
        stats['updates_in_established'] += 1
        if st != 'ESTABLISHED' or tr.disconnecting or not tr.connected:
            V.append(dict(kind='update-tore-down-session', features=feats,
                          detail='a well-framed UPDATE in Established left state %s (connected=%s)' % (st, tr.connected), replay=rep))
            return
    if state != 'ESTABLISHED' and st == state and tr.connected and not tr.disconnecting:
        # the input was ignored or only reported: a well-behaved peer completes the handshake, the session that results
        # must be the one its (first) OPEN negotiated
        if state == 'OPENSENT':
            w.deliver(std_open(as4), tr)
        w.deliver(KEEPALIVE, tr)
        st = w.state_direct()
        if st == 'ESTABLISHED':
            stats['handshakes_completed'] += 1
    if st == 'ESTABLISHED' and tr.connected and not tr.disconnecting:
        pr, want = probes(as4)
        n1 = len(w.handler.ev)
        for p in pr:
            w.deliver(p, tr)
        got = norm(reports_of(w, n1))
        stats['probes_compared'] += 1
        if got != want:
            V.append(dict(kind='collateral-damage', features=feats,
                          detail='after the input the known-good probes decode differently: %s vs %s' % (str(got)[:300], str(want)[:300]), replay=rep))
    if w.live_count() == 0:
        # closed: the reconnect must be scheduled
        w.advance(CONF.time.idle_hold_time + 1)
        stats['reconnect_checked'] += 1
        if w.live_count() == 0:
            V.append(dict(kind='no-reconnect', features=feats, detail='session closed (state %s) and no reconnect within idle-hold time' % w.state_direct(), replay=rep))
    # timers keep running without escaping
    w.advance(40)
    if reactor.escaped:
        V.append(dict(kind='escaped-exception', features=feats + ['where:' + reactor.escaped[0][0]],
                      detail='unhandled %s after the input' % (reactor.escaped[0],), replay=rep))


# ---------------------------------------------------------------- decoding does not depend on what was decoded before
def bgpls_protocol_variants(body):
    """copies of an UPDATE body whose BGP-LS NLRIs (MP_REACH 16388/71) carry another protocol-id: the same descriptor octets
    under IS-IS, OSPF, direct, static, BGP ... are different routes and decode differently"""
    try:
        wl = struct.unpack('!H', body[:2])[0]
        al = struct.unpack('!H', body[2 + wl:4 + wl])[0]
        i, end = 4 + wl, 4 + wl + al
        spots = []
        while i < end:
            fl, code = body[i], body[i + 1]
            h = 4 if fl & 0x10 else 3
            ln = struct.unpack('!H', body[i + 2:i + 4])[0] if fl & 0x10 else body[i + 2]
            if code == 14 and body[i + h:i + h + 3] == b'\x40\x04\x47':
                v0 = i + h
                j = v0 + 4 + body[v0 + 3] + 1
                while j + 5 <= i + h + ln:
                    spots.append(j + 4)
                    j += 4 + struct.unpack('!H', body[j + 2:j + 4])[0]
            i += h + ln
    except Exception:
        return []
    out = []
    for proto in (1, 2, 3, 4, 5, 6, 7, 0, 200):
        if spots:
            b = bytearray(body)
            for sp in spots:
                b[sp] = proto
            out.append(bytes(b))
    return out


def history_messages(seed, n_mut):
    """deterministic list of UPDATE bodies: the unit-test corpus, protocol-id variants of its BGP-LS messages, mutations"""
    rng = random.Random(seed)
    base = [b for t, b in corpus.messages() if t == 2]
    # BGP-LS: every NLRI the unit tests know, as an UPDATE of its own, with and without a link-state attribute
    from checks import c15
    K, _ = c15.build_kinds(random.Random(1000), 300)
    ls = K['linkstate-attribute-tlvs']['pool']
    attrs0 = wrap_attr(1, b'\x00') + wrap_attr(2, b'') + wrap_attr(5, b'\x00\x00\x00\x64')
    for nl in K['bgpls-nlris']['pool']:
        mp = wrap_attr(14, struct.pack('!HBB', 16388, 71, 4) + b'\x0a\x00\x00\x01\x00' + nl)
        base.append(update_body(attrs0 + mp))
        if ls:
            base.append(update_body(attrs0 + mp + wrap_attr(29, b''.join(rng.sample(ls, min(len(ls), rng.randint(1, 3)))))))
    out = list(base)
    for b in base:
        out += bgpls_protocol_variants(b)
    for _ in range(n_mut):
        out.append(mutate.random_mutation(rng.choice(base), rng)[:4077])
    rng.shuffle(out)
    return out


def decode_all(bodies, order):
    from yabgp.message.update import Update
    res = {}
    for i in order:
        for asn4 in (True, False):
            try:
                r = Update.parse(None, bodies[i], asn4)
                res['%d/%d' % (i, asn4)] = json.dumps(norm(dict(attr=r['attr'], nlri=r['nlri'], withdraw=r['withdraw'], sub_error=r['sub_error'])), sort_keys=True)
            except BaseException as e:
                res['%d/%d' % (i, asn4)] = 'raised ' + type(e).__name__
    return res


def run_history(sh, res):
    """the same list of messages decoded by fresh interpreters in forward, reverse and shuffled order: every message must
    decode the same whatever was decoded before it (the list is built here; the helpers only decode)"""
    import os
    import subprocess
    import sys
    import tempfile
    bodies = history_messages(sh['seed'], sh['n'])
    fd, path = tempfile.mkstemp(prefix='verif-c10-hist-', suffix='.json', dir=os.environ.get('VERIF_TMP') or None)
    with os.fdopen(fd, 'w') as fh:
        json.dump([b.hex() for b in bodies], fh)
    outs = {}
    try:
        for order in ('forward', 'reverse', 'shuffle'):
            p = subprocess.run([sys.executable, '-m', 'checks.c10', '--history', path, order, str(sh['seed'])],
                               cwd=os.path.dirname(os.path.dirname(os.path.abspath(__file__))), capture_output=True, text=True, timeout=1200,
                               env=dict(os.environ, PYTHONHASHSEED='0'))
            if p.returncode != 0:
                raise RuntimeError('history helper failed: ' + p.stderr[-400:])
            outs[order] = json.loads(p.stdout)
    finally:
        os.unlink(path)
    V = {}
    compared = 0
    for order in ('reverse', 'shuffle'):
        for k, v in outs['forward'].items():
            compared += 1
            if outs[order].get(k) != v:
                i = int(k.split('/')[0])
                V.setdefault('hist', dict(kind='decode-depends-on-history', features=['order:' + order],
                                          detail='UPDATE body %s decodes to %s when the list is met front to back, to %s when it is met in %s order' % (
                                              bodies[i].hex()[:160], v[:200], str(outs[order].get(k))[:200], order),
                                          replay=dict(history_seed=sh['seed'], n=sh['n'], index=i, order=order)))
    res['evaluations'] = compared
    res['distinct'] = ['hist|%d|%s' % (sh['seed'], k) for k in outs['forward']]
    res['counters'] = dict(history_decodes_compared=compared, history_messages=len(bodies))
    res['violations'] = list(V.values())
    return res


def run_barrage(sh, res):
    """many malformed UPDATE bodies in ONE Established session, good ones in between: the session stays up whatever their number"""
    rng = random.Random(sh['seed'])
    V = {}
    upd = [b for t, b in corpus.messages() if t == 2]
    base_attrs = wrap_attr(1, b'\x00') + wrap_attr(2, b'') + wrap_attr(3, b'\x0a\x00\x00\x02')
    malformed = [update_body(wrap_attr(1, b'\x07') + base_attrs[4:]), update_body(base_attrs, b'\x21\x01\x02\x03\x04\x05'),
                 update_body(base_attrs + wrap_attr(4, b'\x00')), update_body(wrap_attr(2, b'\x09\x01\x00\x00\xfd\xe9') + base_attrs)]
    n_err = 0
    for run in range(sh['n']):
        w, tr = world_in('ESTABLISHED')
        n0 = len(w.handler.ev)
        sent = 0
        for i in range(rng.choice([20, 40, 120])):
            body = rng.choice(malformed) if rng.random() < 0.7 else mutate.random_mutation(rng.choice(upd), rng)[:2000]
            if len(body) < 4:
                continue
            w.deliver(frame(2, body), tr)
            sent += 1
            if rng.random() < 0.3:
                w.deliver(S.UPD_ROUTE, tr)
            if w.state_direct() != 'ESTABLISHED' or tr.disconnecting or not tr.connected:
                V.setdefault('barrage', dict(kind='update-tore-down-session', features=['barrage'],
                                             detail='the session ended (state %s) at malformed UPDATE number %d of one session; written: %s' % (
                                                 w.state_direct(), sent, [wire.summarize(f) for f in wire.frames_of_writes(tr.written)][-2:]),
                                             replay=dict(barrage_seed=sh['seed'], run=run)))
                break
        n_err += len([e for e in w.handler.ev[n0:] if e[0] == 'on_update_error'])
        res['evaluations'] += 1
        res['distinct'].append('barrage|%d|%d' % (sh['seed'], run))
    res['counters'] = dict(barrage_sessions=sh['n'], barrage_error_reports=n_err)
    res['violations'] = list(V.values())
    return res


def plan(tier, seed):
    n = 16
    per = 20000 if tier == 'quick' else 150000
    return [dict(part=i, nparts=n, seed=seed * 100 + i, n=per, tier=tier) for i in range(n)] + \
        [dict(kind='history', seed=seed * 100 + i, n=300 if tier == 'quick' else 3000, tier=tier) for i in range(2 if tier == 'quick' else 8)] + \
        [dict(kind='barrage', seed=seed * 100 + 70 + i, n=30 if tier == 'quick' else 600, tier=tier) for i in range(2 if tier == 'quick' else 8)]


def run_shard(sh):
    if sh.get('kind') == 'barrage':
        return run_barrage(sh, dict(evaluations=0, counters={}, maxima={}, sets={}, distinct=[], samples=[], violations=[]))
    if sh.get('kind') == 'history':
        return run_history(sh, dict(evaluations=0, counters={}, maxima={}, sets={}, distinct=[], samples=[], violations=[]))
    METER.install()
    rng = random.Random(sh['seed'])
    stats = dict(max_lines=0, reports_hist=[0, 0, 0, 0], error_reports=0, outcomes={}, updates_in_established=0,
                 probes_compared=0, reconnect_checked=0, handshakes_completed=0)
    V = []
    res = dict(evaluations=0, counters={}, maxima={}, sets={}, distinct=[], samples=[], violations=[])
    probes(True)
    probes(False)
    by = {}
    seen = set()
    for i, (t, body) in enumerate(gen_cases(rng, sh['n'], sh['part'], sh['nparts'])):
        # deterministic cases rotate over the states, random ones pick
        st = STATES[i % 3] if sh['tier'] == 'quick' else None
        for state in ([st] if st else STATES):
            h = hash((t, body, state))
            if h in seen:
                continue
            seen.add(h)
            # OPENs are tried against both kinds of session, everything else mostly against the 4-octet one
            for as4 in ((True, False) if t == 1 else (i % 5 != 4,)):
                run_case(t, body, state, stats, V, as4)
                res['evaluations'] += 1
            k = 'inputs_type%d_%s' % (t, state)
            by[k] = by.get(k, 0) + 1
        if i < 2:
            res['samples'].append(dict(type=t, body=body.hex()[:160]))
    res['distinct'] = [str(h) for h in seen]
    uniq = {}
    for v in V:
        uniq.setdefault((v['kind'], tuple(v['features'])), v)
    res['violations'] = list(uniq.values())
    res['counters'] = dict(by, reports_0=stats['reports_hist'][0], reports_1=stats['reports_hist'][1], reports_2plus=stats['reports_hist'][2] + stats['reports_hist'][3],
                           malformed_update_reports=stats['error_reports'], updates_in_established=stats['updates_in_established'],
                           probes_compared=stats['probes_compared'], reconnect_checked=stats['reconnect_checked'],
                           handshakes_completed_after_input=stats['handshakes_completed'])
    for k, v in stats['outcomes'].items():
        res['counters']['outcome_' + k] = v
    res['maxima'] = dict(max_lines_per_call=stats['max_lines'])
    return res


def floors(m, tier):
    c = m['counters']
    unmet = []
    for k in ('probes_compared', 'reconnect_checked', 'malformed_update_reports', 'updates_in_established', 'history_decodes_compared'):
        if c.get(k, 0) < 500:
            unmet.append('%s below 500' % k)
    return unmet


def replay(rep):
    METER.install()
    stats = dict(max_lines=0, reports_hist=[0, 0, 0, 0], error_reports=0, outcomes={}, updates_in_established=0,
                 probes_compared=0, reconnect_checked=0, handshakes_completed=0)
    V = []
    run_case(rep['type'], bytes.fromhex(rep['body']), rep['state'], stats, V, rep.get('as4', True))
    return V


if __name__ == '__main__':
    import sys
    if len(sys.argv) >= 5 and sys.argv[1] == '--history':
        with open(sys.argv[2]) as fh_:
            bodies_ = [bytes.fromhex(x) for x in json.load(fh_)]
        idx = list(range(len(bodies_)))
        if sys.argv[3] == 'reverse':
            idx.reverse()
        elif sys.argv[3] == 'shuffle':
            random.Random(int(sys.argv[4]) + 1).shuffle(idx)
        sys.stdout.write(json.dumps(decode_all(bodies_, idx)))
