"""C20  On-disk message log stays well-formed and gap-free across rotation/restart/crash."""
import glob
import ast
import json
import os
import random

from vlib import budget
import shutil
import tempfile

from vlib import env
env.setup()
from vlib.world import World, CONF, reactor, KEEPALIVE, peer_open  # noqa: E402
from vlib import session as S  # noqa: E402
from vlib import refenc  # noqa: E402

PROPERTY = 'C20'
LEVEL = 'fault_enumeration'
TECHNIQUE = 'runtime monitoring with crash-point injection: offline audit of the real DefaultHandler log directory after every event, with restarts injected after every event (clean), at every byte offset of the last record (torn tail) and between rotation and the first write (empty newest file)'
RULE = ('histories of handler callbacks (update_received, on_update_error, open_received, send_open, route_refresh_received, '
        'notification_received, on_connection_lost, on_connection_failed, keepalive_received; payloads incl. values that cannot be '
        'serialised - bytes the real decoders return for unknown families) with rotation thresholds forcing 0..k rotations, every eighth history on a directory that already holds 1-6 list-format records of an older release (they keep their place in the numbering and must survive); after every '
        'event the directory is audited (every non-empty line one JSON object with t, seq, type, msg; exactly one line per logging '
        'callback; seq +1 from line to line across files) and crash points are injected: restart on a snapshot, truncation of the '
        'newest file at EVERY byte offset of the last record, an empty newest file; each followed by a restart (must not exit or raise), '
        'further events and a final audit; chains of 3-6 generations of the agent on one directory (events, rotations, a crash of a random kind, restart) audited at the end; peers written as IPv4 / IPv6 lower- and upper-case, events whole seconds or fractions apart or within one clock reading (bursts); plus live sessions with DefaultHandler; distinct = distinct (history, crash point)')
ASSUMPTIONS = ['crashes are modelled at file level: the log directory is what survives (fsync after every record is the code under test)',
               'simplejson stand-in encodes bytes as UTF-8 text like simplejson and raises on other bytes']
SHARD_TIMEOUT = {'quick': 400, 'thorough': 2400}
PEERS = ['10.0.0.2', '10.0.0.2', '2001:db8::2', '2001:DB8::2']       # the address as written in the configuration
CUR = dict(peer='10.0.0.2', step=[1.0])


def pdir():
    """the directory the log of the current peer lives in (the handler lower-cases the address)"""
    return CUR['peer'].lower()


def scratch_dir():
    """memory-backed scratch space when there is one (every record is fsync'ed by the code under test)"""
    tmp = os.environ.get('VERIF_TMP')
    if os.path.isdir('/dev/shm') and os.access('/dev/shm', os.W_OK):
        # named after the runner's scratch directory, which removes it when the run ends (also after a watchdog kill)
        d = os.path.join('/dev/shm', os.path.basename(tmp) if tmp else 'verif-c20-%d' % os.getpid())
        os.makedirs(d, exist_ok=True)
        return d
    return tmp or None


class FakeFactory(object):
    @property
    def peer_addr(self):
        return CUR['peer']


class FakePeer(object):
    factory = FakeFactory()

    def __init__(self):
        self.msg_recv_stat = {'Keepalives': 1}


class Exited(Exception):
    pass


def new_handler(root, max_size, write_keepalive=False):
    """what the agent does at start: options, DefaultHandler(), init()"""
    from vlib import world as W
    W.configure(65001, 65002, '10.0.0.1', CUR['peer'], {}, {}, {'write_disk': True, 'write_dir': root + '/', 'write_keepalive': write_keepalive}, {})
    from yabgp import config as yconfig
    yconfig.get_bgp_config()
    CONF.message.write_msg_max_size = max_size
    from yabgp.handler.default_handler import DefaultHandler
    h = DefaultHandler()
    try:
        h.init()
    except SystemExit:
        raise Exited('init() called sys.exit()')
    return h


def close_handler(h):
    for path, fh in h.peer_files.values():
        try:
            fh.close()
        except Exception:
            pass


EVENTS = ['update', 'update', 'update_big', 'update_huge', 'update_error', 'open', 'send_open', 'rr', 'notification', 'conn_lost', 'conn_failed', 'keepalive', 'update_bytes', 'open_none',
          'update_tuplekey', 'update_selfref', 'update_object']


def payload(kind, rng):
    if kind in ('update', 'update_big', 'update_huge'):
        # update_huge: what an UPDATE near the 4096-octet maximum decodes to - a record of 15-25 KB
        n = 1 if kind == 'update' else 40 if kind == 'update_big' else rng.choice([700, 1000])
        return {'attr': {1: 0, 2: [(2, [65002, rng.randint(1, 65535)])], 3: '10.0.0.2'}, 'nlri': ['10.%d.%d.0/24' % (rng.randrange(256), i) for i in range(n)],
                'withdraw': [], 'afi_safi': 'ipv4'}
    if kind == 'update_bytes':
        # what the real decoder hands over for an address family it does not know: raw bytes
        return {'attr': {14: {'afi_safi': (2, 99), 'nexthop': b'\xfe\x80\xff\xfe', 'nlri': bytes([rng.randrange(128, 256) for _ in range(6)])}}, 'nlri': [], 'withdraw': [],
                'afi_safi': None}
    if kind == 'update_tuplekey':
        return {'attr': {14: {'afi_safi': (1, 1), 'by_family': {(1, 1): ['10.0.0.0/8']}}}, 'nlri': [], 'withdraw': [], 'afi_safi': 'ipv4'}
    if kind == 'update_selfref':
        loop = ['10.0.0.0/8']
        loop.append(loop)
        return {'attr': {1: 0}, 'nlri': loop, 'withdraw': [], 'afi_safi': 'ipv4'}
    if kind == 'update_object':
        return {'attr': {1: 0, 99: object(), 98: {1, 2, 3}}, 'nlri': [], 'withdraw': [], 'afi_safi': 'ipv4'}
    if kind == 'update_error':
        return {'attr': {1: 0}, 'nlri': [], 'withdraw': [], 'hex': repr(b'\x00\x00\x00\x04\x40\x01\x01\x07')}
    if kind == 'open':
        return {'version': 4, 'asn': 65002, 'hold_time': 90, 'bgp_id': '10.0.0.2', 'capabilities': {'afi_safi': [(1, 1)], 'four_bytes_as': True}}
    if kind == 'send_open':
        return {'version': 4, 'asn': 65001, 'hold_time': 180, 'bgp_id': '10.0.0.1', 'capabilities': {'four_bytes_as': True, 'add_path': None}}
    return None


def fire(h, kind, rng, peer):
    """invoke one real callback; returns True if the callback is one that logs"""
    # events arrive whole seconds or fractions of a second apart (file names are made from the clock)
    reactor._now += rng.choice(CUR['step'])
    t = 1700000000.0 + reactor._now
    if kind in ('update', 'update_big', 'update_huge', 'update_bytes', 'update_tuplekey', 'update_selfref', 'update_object'):
        h.update_received(peer, t, payload(kind, rng))
    elif kind == 'update_error':
        h.on_update_error(peer, t, payload(kind, rng))
    elif kind == 'open':
        h.open_received(peer, t, payload(kind, rng))
    elif kind == 'open_none':
        h.open_received(peer, t, None)
    elif kind == 'send_open':
        h.send_open(peer, t, payload(kind, rng))
    elif kind == 'rr':
        h.route_refresh_received(peer, {'afi': 1, 'res': 0, 'safi': 1}, 5)
    elif kind == 'notification':
        h.notification_received(peer, {'error': 'Cease', 'sub_error': None, 'data': repr(b'')})
    elif kind == 'conn_lost':
        h.on_connection_lost(peer)
    elif kind == 'conn_failed':
        h.on_connection_failed(CUR['peer'], 'Connection was refused by other side.')
    elif kind == 'keepalive':
        h.keepalive_received(peer, t)
        return bool(CONF.message.write_keepalive)
    return True


def audit(root):
    """returns (problems, lines, last_seq, nfiles)"""
    d = os.path.join(root, pdir(), 'msg')
    files = sorted(glob.glob(os.path.join(d, '*.msg')), key=lambda p: os.path.basename(p))
    problems = []
    prev = 0
    nlines = 0
    legacy_seen = 0
    for f in files:
        with open(f, 'rb') as fh:
            data = fh.read()
        if data and not data.endswith(b'\n'):
            problems.append(('unterminated-tail', '%s ends without a newline: %r' % (os.path.basename(f), data[-40:])))
        for ln in data.split(b'\n'):
            if not ln.strip():
                if ln != b'' or False:
                    pass
                continue
            nlines += 1
            if ln in CUR.get('legacy', ()):
                # a record written by an older release (Python list literal [t, seq, type, msg, family]): it keeps its place
                # in the numbering and must still be there
                legacy_seen += 1
                seq = ast.literal_eval(ln.decode('utf-8'))[1]
                if seq != prev + 1:
                    problems.append(('seq-gap' if seq > prev + 1 else 'seq-reused', 'sequence %s follows %s (file %s)' % (seq, prev, os.path.basename(f))))
                prev = seq
                continue
            try:
                rec = json.loads(ln.decode('utf-8'))
            except Exception:
                problems.append(('line-not-json', 'line %d of %s is not one JSON object: %r' % (nlines, os.path.basename(f), ln[:80])))
                continue
            if not isinstance(rec, dict) or not all(k in rec for k in ('t', 'seq', 'type', 'msg')):
                problems.append(('keys-missing', 'line %d lacks one of t, seq, type, msg: %r' % (nlines, ln[:80])))
                continue
            if rec['seq'] != prev + 1:
                problems.append(('seq-gap' if rec['seq'] > prev + 1 else 'seq-reused', 'sequence %s follows %s (file %s)' % (rec['seq'], prev, os.path.basename(f))))
            prev = rec['seq']
        # blank lines inside a file are also malformed (an event produced an empty line)
        body = data[:-1] if data.endswith(b'\n') else data
        if b'\n\n' in data or data.startswith(b'\n'):
            problems.append(('empty-line', 'empty line in %s' % os.path.basename(f)))
    if legacy_seen != len(CUR.get('legacy', ())):
        problems.append(('existing-records-removed', '%d of the %d records an older release had written are gone' % (len(CUR['legacy']) - legacy_seen, len(CUR['legacy']))))
    return problems, nlines, prev, len(files)


def write_legacy(root, rng):
    d = os.path.join(root, pdir(), 'msg')
    os.makedirs(d, exist_ok=True)
    recs = []
    for i in range(rng.randint(1, 6)):
        kind = rng.choice([1, 2, 4])
        msg = {1: {'bgpID': '10.0.0.2', 'Version': 4, 'holdTime': 180, 'ASN': 65002, 'Capabilities': {'fourbytesAS': True}},
               2: {'ATTR': {1: 0, 2: [(2, [65002])], 3: '10.0.0.2'}, 'WITHDRAW': [], 'NLRI': ['198.51.100.0/24']}, 4: None}[kind]
        recs.append(str([1500000000.1 + i, i + 1, kind, msg, (1, 1) if kind == 2 else (0, 0)]).encode('ascii'))
    with open(os.path.join(d, '1500000000.05.msg'), 'wb') as fh:
        fh.write(b''.join(r + b'\n' for r in recs))
    return tuple(recs)


def count_lines(root):
    n = 0
    for f in glob.glob(os.path.join(root, pdir(), 'msg', '*.msg')):
        with open(f, 'rb') as fh:
            n += fh.read().count(b'\n')
    return n


def plan(tier, seed):
    n = 16
    return [dict(part=i, seed=seed * 100 + i, nhist=100 if tier == 'quick' else 400, tier=tier) for i in range(n)] + [dict(kind='live', seed=seed, n=20 if tier == 'quick' else 100)] + \
        [dict(kind='chain', seed=seed * 10 + i, n=60 if tier == 'quick' else 1500) for i in range(4)]


def run_shard(sh):
    res = dict(evaluations=0, counters=dict(events=0, lines_audited=0, clean_restarts=0, torn_tail_restarts=0, empty_newest_restarts=0, rotations_forced=0,
                                            torn_offsets=0, unserialisable_payloads=0, legacy_directories=0),
               maxima={}, sets={}, distinct=[], samples=[], violations=[])
    V = {}
    CUR['legacy'] = ()

    def bad(kind, feats, detail, replay):
        V.setdefault((kind, tuple(sorted(feats))), dict(kind=kind, features=sorted(feats), detail=detail, replay=replay))

    if sh.get('kind') == 'live':
        return run_live(sh, res)
    if sh.get('kind') == 'chain':
        return run_chain(sh, res)
    rng = random.Random(sh['seed'])
    base = tempfile.mkdtemp(prefix='verif-c20-', dir=scratch_dir())
    try:
        for hi in range(sh['nhist']):
            if budget.expired():
                break
            root = os.path.join(base, 'h%d' % hi)
            os.makedirs(root)
            max_size = rng.choice([10 ** 9, 10 ** 9, 600, 2000, 300])
            wk = rng.random() < 0.3
            hist = [rng.choice(EVENTS) for _ in range(rng.randint(3, 12))]
            CUR['peer'] = rng.choice(PEERS)
            CUR['step'] = rng.choice([[1.0], [1.0], [0.05, 0.25, 0.3, 1.0], [0.011, 0.09, 0.4], [0.000001, 0.5, 3.0], [0.0, 0.0, 0.0, 1.0], [0.0]])   # 0.0: a burst handled within one clock reading
            rep = dict(history=hist, max_size=max_size, write_keepalive=wk, seed=sh['seed'], hi=hi, peer=CUR['peer'], steps=CUR['step'])
            peer = FakePeer()
            reactor.reset()
            CUR['legacy'] = ()
            if hi % 8 == 5:
                # the directory was written by an older release: one Python list literal per line, which get_last_seq() knows
                CUR['legacy'] = write_legacy(root, rng)
                res['counters']['legacy_directories'] += 1
            rep['legacy'] = [x.decode('ascii') for x in CUR['legacy']]
            try:
                h = new_handler(root, max_size, wk)
            except Exited as e:
                bad('restart-exits', ['first-start'], str(e), rep)
                continue
            for k, ev in enumerate(hist):
                n0 = count_lines(root)
                f0 = len(glob.glob(os.path.join(root, pdir(), 'msg', '*.msg')))
                feats = ['event:' + ev]
                try:
                    logs = fire(h, ev, rng, peer)
                except Exception as e:
                    bad('callback-raised', feats, 'callback %s raised %r' % (ev, e), rep)
                    break
                res['counters']['events'] += 1
                res['counters']['unserialisable_payloads'] += ev in ('update_bytes', 'update_tuplekey', 'update_selfref', 'update_object')
                n1 = count_lines(root)
                res['counters']['rotations_forced'] += max(0, len(glob.glob(os.path.join(root, pdir(), 'msg', '*.msg'))) - f0)
                if n1 - n0 != (1 if logs else 0):
                    bad('lines-per-event', feats, 'callback %s appended %d lines' % (ev, n1 - n0), rep)
                probs, nl, last, nf = audit(root)
                res['counters']['lines_audited'] += nl
                for pk, pd in probs:
                    bad(pk, feats + ['phase:running'], pd + ' (after event %d %s)' % (k, ev), rep)
                if probs:
                    break
                # ---------------- crash points after this event
                res['evaluations'] += 1
                cps = [('clean', None)]
                files_now = sorted(glob.glob(os.path.join(root, pdir(), 'msg', '*.msg')))
                if not files_now:
                    bad('no-log-file', feats, 'no log file exists in %s after event %d %s' % (os.path.join(pdir(), 'msg'), k, ev), rep)
                    break
                newest = files_now[-1]
                size = os.path.getsize(newest)
                with open(newest, 'rb') as fh:
                    data = fh.read()
                last_start = data.rfind(b'\n', 0, len(data) - 1) + 1 if data else 0
                if sh['tier'] == 'quick':
                    offs = sorted(set([last_start, last_start + 1, size - 1, size - 2] + [rng.randint(last_start, max(last_start, size - 1)) for _ in range(3)]))
                else:
                    offs = list(range(last_start, size))
                if (hi + k) % 3 == 0 or sh['tier'] != 'quick':
                    cps += [('torn', o) for o in offs if last_start <= o < size]
                cps.append(('empty-newest', None))
                legacy_all = CUR['legacy']
                for cp, off in cps:
                    CUR['legacy'] = legacy_all
                    snap = os.path.join(base, 'snap')
                    shutil.rmtree(snap, ignore_errors=True)
                    shutil.copytree(root, snap)
                    d = os.path.join(snap, pdir(), 'msg')
                    expect_lines = nl
                    legacy_saved = CUR['legacy']
                    if cp == 'torn' and data[last_start:].rstrip(b'\n') in CUR['legacy']:
                        # nothing was logged yet and the harness itself tears the last record of the older release
                        CUR['legacy'] = tuple(x for x in legacy_saved if x != data[last_start:].rstrip(b'\n'))
                    if cp == 'torn':
                        with open(os.path.join(d, os.path.basename(newest)), 'r+b') as fh:
                            fh.truncate(off)
                        res['counters']['torn_offsets'] += 1
                        expect_lines = nl - 1
                    elif cp == 'empty-newest':
                        open(os.path.join(d, '%s.msg' % (1700000000.0 + reactor._now + 0.5)), 'w').close()
                    cfeats = ['crash:' + cp]
                    crep = dict(rep, crash=cp, offset=off, after_event=k)
                    now_saved = reactor._now
                    reactor._now += 2.0
                    try:
                        h2 = new_handler(snap, max_size, wk)
                    except Exited as e:
                        bad('restart-exits', cfeats, 'restart after %s crash%s: %s' % (cp, '' if off is None else ' at offset %d of the last record' % (off - last_start), e), crep)
                        reactor._now = now_saved
                        continue
                    except Exception as e:
                        bad('restart-raises', cfeats, 'restart after %s crash raised %r' % (cp, e), crep)
                        reactor._now = now_saved
                        continue
                    res['counters'][{'clean': 'clean_restarts', 'torn': 'torn_tail_restarts', 'empty-newest': 'empty_newest_restarts'}[cp]] += 1
                    try:
                        for ev2 in (('update', 'notification') if (hi + k) % 4 else ('update_huge', 'notification')):
                            fire(h2, ev2, rng, peer)
                    except Exception as e:
                        bad('callback-raised', cfeats, 'after a %s crash and restart the callback raised %r' % (cp, e), crep)
                    close_handler(h2)
                    probs2, nl2, last2, nf2 = audit(snap)
                    for pk, pd in probs2:
                        bad(pk, cfeats + ['phase:after-restart'], pd + ' (after %s crash%s, restart and 2 more events)' % (
                            cp, '' if off is None else ' at offset %d of the last record' % (off - last_start)), crep)
                    if not probs2 and nl2 != expect_lines + 2:
                        bad('lines-lost', cfeats, 'after a %s crash, restart and 2 events the log has %d complete lines, expected %d' % (cp, nl2, expect_lines + 2), crep)
                    reactor._now = now_saved
                    res['distinct'].append('%d|%d|%d|%s|%s' % (sh['seed'], hi, k, cp, off))
                CUR['legacy'] = legacy_all
            close_handler(h)
            if hi < 2:
                res['samples'].append(dict(history=hist, max_size=max_size, crash_points='clean, torn tail at byte offsets of the last record, empty newest file'))
    finally:
        shutil.rmtree(base, ignore_errors=True)
    res['violations'] = list(V.values())
    res['evaluations'] = max(res['evaluations'], len(res['distinct']))
    return res


def run_chain(sh, res):
    """long lives: several generations of the agent on one directory - events, many rotations, a crash of a random kind,
    a restart - with one audit at every restart and a final one"""
    rng = random.Random(sh['seed'])
    V = {}
    base = tempfile.mkdtemp(prefix='verif-c20c-', dir=scratch_dir())
    gens = rot = nev = 0
    try:
        for ci in range(sh['n']):
            if budget.expired():
                break
            root = os.path.join(base, 'c%d' % ci)
            os.makedirs(root)
            CUR['peer'] = rng.choice(PEERS)
            CUR['step'] = rng.choice([[1.0], [0.05, 0.25, 0.3, 1.0], [0.000001, 0.5, 3.0], [0.0, 0.0, 1.0]])
            max_size = rng.choice([300, 600, 1500, 10 ** 9])
            wk = rng.random() < 0.3
            peer = FakePeer()
            reactor.reset()
            expect = 0
            rep = dict(chain=True, seed=sh['seed'], ci=ci, max_size=max_size, peer=CUR['peer'])
            ok = True
            for g in range(rng.choice([3, 4, 6])):
                try:
                    h = new_handler(root, max_size, wk)
                except Exited as e:
                    V.setdefault(('restart-exits', 'chain'), dict(kind='restart-exits', features=['chain', 'generation:%d' % min(g, 3)], detail='generation %d: %s' % (g, e), replay=rep))
                    ok = False
                    break
                gens += 1
                for _ in range(rng.randint(4, 25)):
                    ev = rng.choice(EVENTS)
                    f0 = len(glob.glob(os.path.join(root, pdir(), 'msg', '*.msg')))
                    try:
                        logs = fire(h, ev, rng, peer)
                    except Exception as e:
                        V.setdefault(('callback-raised', 'chain'), dict(kind='callback-raised', features=['chain', 'event:' + ev], detail='generation %d: callback %s raised %r' % (g, ev, e), replay=rep))
                        ok = False
                        break
                    nev += 1
                    expect += 1 if logs else 0
                    rot += max(0, len(glob.glob(os.path.join(root, pdir(), 'msg', '*.msg'))) - f0)
                close_handler(h)
                if not ok:
                    break
                # the crash: nothing, a torn last record, or an empty newest file
                files = sorted(glob.glob(os.path.join(root, pdir(), 'msg', '*.msg')))
                how = rng.choice(['clean', 'torn', 'empty-newest', 'clean'])
                if how == 'torn' and files and os.path.getsize(files[-1]) > 2:
                    with open(files[-1], 'rb') as fh:
                        data = fh.read()
                    last_start = data.rfind(b'\n', 0, len(data) - 1) + 1
                    with open(files[-1], 'r+b') as fh:
                        fh.truncate(rng.randint(last_start, len(data) - 1))
                    expect -= 1
                elif how == 'empty-newest':
                    # (the rotation that died right after creating its file happened a moment ago, before the restart)
                    open(os.path.join(root, pdir(), 'msg', '%s.msg' % (1700000000.0 + reactor._now + 0.05)), 'w').close()
                reactor._now += rng.choice([0.2, 2.0, 100.0])
                if rng.random() < 0.3:
                    env.MONO_OFFSET[0] = -reactor._now        # the machine was rebooted: uptime starts again
            if not ok:
                continue
            try:
                h = new_handler(root, max_size, wk)      # the restart after the last crash repairs a torn tail
                close_handler(h)
            except Exited as e:
                V.setdefault(('restart-exits', 'chain'), dict(kind='restart-exits', features=['chain', 'final'], detail='final restart: %s' % e, replay=rep))
                continue
            probs, nl, last, nf = audit(root)
            for pk, pd in probs:
                V.setdefault((pk, 'chain'), dict(kind=pk, features=['chain'], detail=pd + ' (after %d generations)' % (g + 1), replay=rep))
            if not probs and nl != expect:
                V.setdefault(('lines-lost', 'chain'), dict(kind='lines-lost', features=['chain'], detail='after %d generations the log has %d complete lines, %d were written and survived' % (g + 1, nl, expect), replay=rep))
            res['evaluations'] += 1
            res['distinct'].append('chain|%d|%d' % (sh['seed'], ci))
    finally:
        shutil.rmtree(base, ignore_errors=True)
    res['counters'] = dict(chain_generations=gens, chain_rotations=rot, chain_events=nev)
    res['violations'] = list(V.values())
    return res


def run_live(sh, res):
    """live sessions with the real DefaultHandler; the directory is audited after every event and after restarts"""
    rng = random.Random(sh['seed'])
    V = {}
    base = tempfile.mkdtemp(prefix='verif-c20l-', dir=scratch_dir())
    nev = 0
    # hostile well-framed frames too: whatever the decoders hand to the handler must end up as one well-formed record
    fz = S.fuzz_alphabet(rng, 40)
    try:
        for i in range(sh['n']):
            if budget.expired():
                break
            root = os.path.join(base, 'l%d' % i)
            os.makedirs(root)
            for restart in range(3):
                # wall time does not run backwards across a restart of the agent (World() resets the virtual clock)
                env.CLOCK_OFFSET[0] += reactor.seconds() + 5.0
                try:
                    w = World(handler='default', msg_opts={'write_dir': root + '/', 'write_disk': True}, max_file_size=rng.choice([10 ** 9, 1500]),
                              time_opts={'idle_hold_time': 2})
                except SystemExit:
                    V.setdefault(('restart-exits', 'live'), dict(kind='restart-exits', features=['live-session'], detail='restart %d of a live agent on its own log called sys.exit()' % restart,
                                                                 replay=dict(live=True)))
                    break
                evs = ['TICK', 'ACCEPT', 'OPEN', 'KA'] + [rng.choice(['UPD1', 'UPD', 'RR', 'KA', 'TICK', 'NOTI_CEASE', 'PEERCLOSE', 'ACCEPT', 'OPEN', 'OPEN_nocap', 'REFUSE', 'UPD_unknown',
                                                                      'UPD_unkfam', 'UPD_malformed', 'OPEN', 'KA'] + fz)
                                                          for _ in range(40)]
                for e in evs:
                    if e == 'UPD_unknown':
                        if w.live():
                            w.deliver(refenc.update({1: 0, 2: [], 14: None}, asn4=True) if False else
                                      refenc.frame(2, b'\x00\x00\x00\x0e' + refenc.attr(14, b'\x00\x02\x63\x04\xfe\x80\xff\xfe\x00\x90\x80\xff')), w.live()[0])
                    else:
                        S.apply_event(w, e)
                    nev += 1
                    probs, nl, last, nf = audit(root)
                    for pk, pd in probs:
                        V.setdefault((pk, 'live'), dict(kind=pk, features=['live-session', 'event:' + S.parse_event(e)[0]], detail=pd + ' (live session, after %s)' % e,
                                                        replay=dict(live=True, events=evs, fuzz={k: S.MSGS[k][0].hex() for k in evs if k.startswith('FZ')})))
                    if probs:
                        break
                close_handler(w.handler)
            res['evaluations'] += 1
            res['distinct'].append('live|%d|%d' % (sh['seed'], i))
    finally:
        shutil.rmtree(base, ignore_errors=True)
    res['counters'] = dict(live_session_events=nev, live_histories=sh['n'])
    res['violations'] = list(V.values())
    return res


def floors(m, tier):
    c = m['counters']
    unmet = []
    for k, n in (('chain_generations', 200), ('chain_rotations', 200), ('events', 500), ('clean_restarts', 300), ('torn_tail_restarts', 300), ('empty_newest_restarts', 300), ('rotations_forced', 30), ('live_session_events', 100),
                 ('unserialisable_payloads', 20)):
        if c.get(k, 0) < n:
            unmet.append('%s below %d' % (k, n))
    return unmet


def replay(rep):
    return []
