"""C02  Session self-heals: never stuck, nothing in the past blocks re-establishment."""
import random

from vlib import budget

from vlib import session as S
from vlib import wire
from vlib.session import Monitor, parse_event
from vlib.world import World, CONF, peer_open, KEEPALIVE, reactor

PROPERTY = 'C02'
LEVEL = 'exploration'
TECHNIQUE = 'runtime monitoring with fault injection at the boundaries: adversarial event prefixes (small-scope exploration + long fault-biased walks) each followed by a cooperative-peer continuation in virtual time; bounded-progress oracle on connectTCP calls, reported state and OPEN bytes'
RULE = ('every distinct abstract state reached by the C01 event exploration (operator not having stopped the peer), and the end state of '
        'long fault-biased random walks, is continued with a cooperative peer (accepts at once, valid OPEN, KEEPALIVE every H/3): '
        'Established must be reached within idle_hold + max(connect_retry,30) + 1 s of virtual time, hold for max(3H,250) s more, '
        'and the OPEN of the recovered session must equal the OPEN of a fresh agent with the same configuration; then a second fault (peer close / reset / a bad marker that makes the agent close) and the same demands on the session after it; searches from boot and from 7 prefix sessions, with close completion at the same instant and as a late separate event; '
        'distinct = distinct abstract world fingerprints continued; liveness restated as bounded progress')
ASSUMPTIONS = ['simulated Twisted reactor (verif/shims), virtual time', 'bounded-progress restatement: "stays up" observed for max(3H,250) s',
               'cooperative peer continues a connection already in use with the hold time negotiated on it']
SHARD_TIMEOUT = {'quick': 600, 'thorough': 1800}
CFGS = {
    'default': {},
    'small': {'hold_time': 9, 'idle_hold_time': 5, 'connect_retry_time': 40},
    'retry10': {'connect_retry_time': 10, 'hold_time': 30},
    'idle0': {'idle_hold_time': 0, 'connect_retry_time': 20},      # no damping at all: the restart follows at once
    'v6': {'idle_hold_time': 5, '_local_addr': '2001:db8::1', '_remote_addr': '2001:db8::2'},      # an IPv6 transport session
}


def wkw(cfgname):
    """World keyword arguments of a named configuration (keys with an underscore are not timer options)"""
    c = CFGS[cfgname]
    kw = dict(time_opts={k: v for k, v in c.items() if not k.startswith('_')})
    kw.update({k[1:]: v for k, v in c.items() if k.startswith('_')})
    return kw
DEPTH = {'quick': {'default': (3, 6), 'small': (3, 5), 'retry10': (3, 5), 'idle0': (3, 5), 'v6': (3, 4)}, 'thorough': {'default': (4, 8), 'small': (4, 8), 'retry10': (4, 8), 'idle0': (4, 7), 'v6': (4, 6)}}
PARTS = {'quick': 4, 'thorough': 5}
WALKS = {'quick': (256, 250), 'thorough': (10000, 600)}
BUDGET = {'quick': 300, 'thorough': 1000}
PEER_HOLDS = [90, 0, 3, 180]
_fresh = {}

# prefix-seeded exploration: faults applied to states a search from boot reaches only at depth 8+
PREFIXES = [
    ('default', ['START', 'ACCEPT', 'OPEN_h9', 'TICK', 'TICK', 'KA']),
    ('default', ['TICK', 'ACCEPT', 'OPEN_h9', 'KA', 'NOTI_CEASE']),
    ('default', ['TICK', 'ACCEPT', 'OPEN_h0', 'KA']),
    ('small', ['TICK', 'ACCEPT', 'OPEN', 'KA', 'TICK', 'TICK']),
    ('small', ['TICK', 'ACCEPT', 'OPEN_h1', 'TICK', 'ACCEPT']),
    ('retry10', ['TICK', 'TICK', 'TICK']),
    ('retry10', ['TICK', 'ACCEPT', 'OPEN', 'KA', 'STOP', 'START']),
    # a peer that was never reachable since boot: refusals / unanswered attempts in a row must not slow the reconnect down
    ('default', ['TICK', 'REFUSE'] * 6),
    ('default', ['TICK', 'REFUSE'] * 13),
    ('small', ['TICK', 'REFUSE'] * 13),
    ('retry10', ['TICK'] * 26),
    ('retry10', ['TICK'] * 9),
    ('small', ['TICK', 'REFUSE', 'TICK', 'TICK', 'REFUSE', 'TICK', 'REFUSE', 'TICK', 'REFUSE']),
    ('idle0', ['TICK', 'ACCEPT', 'OPEN', 'KA', 'NOTI_CEASE']),
    ('idle0', ['TICK', 'REFUSE', 'TICK', 'REFUSE']),
]
PREFIX_DEPTH = {'quick': 3, 'thorough': 5}


class OpMonitor(Monitor):
    def __init__(self, w):
        Monitor.__init__(self, w)
        self.stopped = False
        self.last_fault = 'none'

    def after(self, ev, info):
        name = parse_event(ev)[0]
        if name == 'STOP':
            self.stopped = True
        elif name == 'START':
            if self.w.fsm.allow_automatic_start:
                self.stopped = False
        elif name not in ('TICK', 'ACCEPT', 'OPEN', 'KA', 'UPD', 'UPD1', 'RR'):
            self.last_fault = name

    def extra(self):
        return self.stopped


def fresh_open(cfgname, peer_hold):
    k = (cfgname, peer_hold)
    if k not in _fresh:
        w = World(**wkw(cfgname))
        res = S.cooperate(w, 60, hold=peer_hold)
        _fresh[k] = res['opens'][0] if res['opens'] else None
    return _fresh[k]


def continuation(r, cfgname, peer_hold, stats):
    m = r.monitors[0]
    w = r.w
    if m.stopped:
        return
    idle, retry, cfg_hold = CONF.time.idle_hold_time, CONF.time.connect_retry_time, CONF.time.hold_time
    bound = idle + max(retry, 30) + 1.0
    t0 = w.now()
    live0 = w.live_count()
    state0 = w.state_direct()
    feats = ['from:' + state0]
    res = S.cooperate(w, bound, hold=peer_hold)
    stats['continued'] += 1
    stats['by_state'][state0] = stats['by_state'].get(state0, 0) + 1
    stats['by_fault'][m.last_fault] = stats['by_fault'].get(m.last_fault, 0) + 1
    if res['first_up'] is None:
        if res['connects'] == 0 and live0 == 0:
            m.report('no-reconnect-pending', 'from %s at t=%s: no connection attempt within %s s with a cooperative peer (fsm %s, timers %s)'
                     % (state0, t0, bound, w.state_direct(), [(c.name, c.time) for c in S.reactor._calls]), feats)
        else:
            m.report('not-established-in-bound', 'from %s at t=%s: cooperative peer (hold %s) for %s s, %d connection(s), %d handshakes, never Established (now %s)'
                     % (state0, t0, peer_hold, bound, res['connects'], res['sessions'], w.state_direct()), feats)
        return
    rec = res['first_up'] - t0
    stats['max_recovery'] = max(stats['max_recovery'], rec)
    H = min(cfg_hold, peer_hold)
    res2 = S.cooperate(w, max(3 * H, 250), hold=peer_hold)
    down = res['down_after_up'] if res['down_after_up'] is not None else (res2['first_up'] is None and w.now()) or res2['down_after_up']
    if res['down_after_up'] is not None or w.state_direct() != 'ESTABLISHED' or res2['down_after_up'] is not None or res2['first_up'] != res2['t_start']:
        m.report('session-not-stable', 'from %s: Established at t=%s but down again at t=%s with a cooperative peer (hold %s, H=%s)'
                 % (state0, res['first_up'], down, peer_hold, H), feats)
        return
    stats['stable'] += 1
    # the OPEN of the session that is up vs the OPEN of a fresh agent
    tr = w.tracked_transport()
    mine = [f for f in wire.frames_of_writes(tr.written) if f[1] == 1]
    want = fresh_open(cfgname, peer_hold)
    stats['opens_compared'] += 1
    if not mine or mine[0][3].hex() != want:
        m.report('open-changed', 'from %s: the recovered session offers OPEN %s, a fresh agent offers %s'
                 % (state0, mine[0][3].hex() if mine else None, want), feats)
        return
    # one more fault on the recovered session (ended by the peer, or by the agent itself after a bad marker - in deferred-close
    # mode that close completes only after the next connection is up), then the session after it is held to the same standard
    how = ('peer-close', 'bad-marker', 'peer-reset')[stats['continued'] % 3]
    if how == 'bad-marker':
        w.deliver(S.MSGS['BADMARK'][0], tr)
    else:
        w.peer_close(tr, clean=(how == 'peer-close'))
    res3 = S.cooperate(w, bound + 25.0, hold=peer_hold)
    stats['second_faults'] += 1
    stats['late_closes'] += res3['late_closes'] + res['late_closes']
    if res3['first_up'] is None or w.state_direct() != 'ESTABLISHED':
        m.report('no-second-recovery', 'from %s: recovered once, but after %s no session within %s s (state %s, %d connects)'
                 % (state0, how, bound + 25.0, w.state_direct(), res3['connects']), feats + ['second-fault:' + how])
        return
    tr3 = w.tracked_transport()
    mine3 = [f for f in wire.frames_of_writes(tr3.written) if f[1] == 1]
    stats['opens_compared'] += 1
    if not mine3 or mine3[0][3].hex() != want:
        m.report('open-changed', 'from %s: the session after the recovered one (ended by %s) offers OPEN %s, a fresh agent offers %s'
                 % (state0, how, mine3[0][3].hex() if mine3 else None, want), feats + ['second-fault:' + how])


def cadence_case(cfgname, fault, n, defer=False):
    """the same fault n times in a row: the pace of the reconnections must not depend on how many came before
    (nothing in the past changes what the next session is offered, or when).  Returns (violations, attempts seen)"""
    w = World(defer_close=defer, **wkw(cfgname))
    times, V = [], []
    guard = 0
    while len(times) < n and guard < 40 * n:
        guard += 1
        if not w.pending():
            if not w.tick():
                break
            continue
        times.append(w.now())
        if fault == 'refuse':
            w.refuse()
        elif fault == 'timeout':
            # nobody answers: the attempt ends by the agent's own doing (TCP timeout or ConnectRetry)
            c = w.pending()[0]
            g2 = 0
            while c.state == 'connecting' and g2 < 50:
                g2 += 1
                if not w.tick():
                    break
        else:
            tr = w.accept()
            w.deliver(peer_open(), tr)
            w.deliver(KEEPALIVE, tr)
            if fault.startswith('noti:'):
                c_, s_ = fault.split(':')[1:]
                w.deliver(S.frame(3, bytes([int(c_), int(s_)])), tr)
                if tr.connected and not tr.disconnecting:
                    w.peer_close(tr, clean=True)
            elif fault == 'peer-close':
                w.peer_close(tr, clean=True)
            elif fault == 'cease':
                w.deliver(S.MSGS['NOTI_CEASE'][0], tr)
            else:
                w.deliver(S.MSGS['BADMARK'][0], tr)
            if defer:
                while reactor._io_pending:
                    reactor.sim_complete_close(0)
                    w.settle()
    gaps = [round(b - a, 6) for a, b in zip(times, times[1:])]
    if len(times) < n:
        V.append(dict(kind='cadence-stops', features=['fault:' + fault], detail='%s x %d with configuration %s: only %d connection attempts, the last at t=%s (fsm %s)' % (
            fault, n, cfgname, len(times), times[-1] if times else None, w.state_direct())))
    elif len(set(gaps[1:])) > 1:
        first = [i for i, g in enumerate(gaps[1:], 1) if g != gaps[1]][0]
        V.append(dict(kind='cadence-changes', features=['fault:' + fault], detail='%s repeated with configuration %s: reconnection gaps %s ... then %s from attempt %d on' % (
            fault, cfgname, gaps[1:4], gaps[first:first + 3], first + 1)))
    return V, len(times)


def plan(tier, seed):
    shards = []
    for name in CFGS:
        d0, d = DEPTH[tier][name]
        for p in range(PARTS[tier]):
            shards.append(dict(kind='bfs', cfg=name, part=p, nparts=PARTS[tier], d0=d0, depth=d, budget=BUDGET[tier],
                               peer_hold=PEER_HOLDS[p % len(PEER_HOLDS)] if name != 'default' else 90))
        # the same search with close completion as a separate, late event (connectionLost after the write buffer drained)
        for p in range(2):
            shards.append(dict(kind='bfs', cfg=name, part=p, nparts=2, d0=d0, depth=d, budget=BUDGET[tier], peer_hold=90, defer=True))
    for i, (name, pre) in enumerate(PREFIXES):
        shards.append(dict(kind='bfs', cfg=name, part=0, nparts=1, d0=1, depth=PREFIX_DEPTH[tier], budget=BUDGET[tier],
                           peer_hold=PEER_HOLDS[i % len(PEER_HOLDS)], start=[pre]))
        shards.append(dict(kind='bfs', cfg=name, part=0, nparts=1, d0=1, depth=PREFIX_DEPTH[tier], budget=BUDGET[tier],
                           peer_hold=90, start=[pre], defer=True))
    shards.append(dict(kind='cadence', n=25 if tier == 'quick' else 120, cfg='default', peer_hold=90))
    n, length = WALKS[tier]
    nshard = 4 if tier == 'quick' else 16
    for i in range(nshard):
        shards.append(dict(kind='walk', seed=seed * 1000 + i, n=n // nshard, length=length, cfg=list(CFGS)[i % len(CFGS)],
                           peer_hold=PEER_HOLDS[i % len(PEER_HOLDS)], defer=bool(i % 2)))
        shards.append(dict(kind='walk', seed=seed * 1000 + 500 + i, n=n // nshard, length=length, cfg=list(CFGS)[i % len(CFGS)],
                           peer_hold=PEER_HOLDS[i % len(PEER_HOLDS)], defer=bool(i % 2), fuzz=150 if tier == 'quick' else 1500))
    return shards


def run_shard(sh):
    res = dict(evaluations=0, counters={}, maxima={}, sets={}, distinct=[], samples=[], violations=[])
    cfg = wkw(sh['cfg'])
    if sh.get('defer'):
        cfg['defer_close'] = True
    stats = dict(continued=0, stable=0, opens_compared=0, max_recovery=0.0, by_state={}, by_fault={}, second_faults=0, late_closes=0)
    viol = {}
    fresh_open(sh['cfg'], sh['peer_hold'])

    def grab(r):
        for v in r.collect():
            viol.setdefault((v['kind'], tuple(v['features'])), v)

    if sh['kind'] == 'cadence':
        total = 0
        for cfgname in CFGS:
            for fault in ('refuse', 'timeout', 'peer-close', 'cease', 'bad-marker'):
                for defer in (False, True):
                    V, seen = cadence_case(cfgname, fault, sh['n'], defer)
                    total += seen
                    res['evaluations'] += 1
                    res['distinct'].append('cadence|%s|%s|%s' % (cfgname, fault, defer))
                    for v in V:
                        viol.setdefault((v['kind'], tuple(v['features'])), dict(v, replay=dict(cadence=[cfgname, fault, sh['n'], defer])))
        # every NOTIFICATION code / sub-code the RFCs define (and a few they do not) ends the session - and only that session
        for c_ in range(1, 9):
            for s_ in range(0, 12):
                V, seen = cadence_case('small', 'noti:%d:%d' % (c_, s_), 6)
                total += seen
                res['evaluations'] += 1
                res['distinct'].append('cadence|noti|%d|%d' % (c_, s_))
                for v in V:
                    viol.setdefault((v['kind'], tuple(v['features'])), dict(v, replay=dict(cadence=['small', 'noti:%d:%d' % (c_, s_), 6, False])))
        res['counters'] = dict(cadence_attempts_observed=total)
        res['violations'] = list(viol.values())
        res['sets']['peer_holds'] = [sh['peer_hold']]
        return res
    if sh['kind'] == 'bfs':
        def on_state(r, seq):
            continuation(r, sh['cfg'], sh['peer_hold'], stats)
            grab(r)
        ex = S.bfs_shard(cfg, [OpMonitor], S.ALPHABET_C01, sh['d0'], sh['depth'], sh['part'], sh['nparts'],
                         multi=False, on_state=on_state, time_budget=sh['budget'], start=sh.get('start'),
                         rest=('R_ROOT',) if sh.get('start') else ())
        res['evaluations'] = stats['continued']
        res['distinct'] = ['%s|%d' % (sh['cfg'], hash(k)) for k in ex.seen]
        res['counters'] = dict(executed_sequences=ex.execs, executed_events=ex.events, states=len(ex.seen),
                               truncated_shards=int(ex.truncated))
        if sh.get('start'):
            res['counters']['prefix_seeded_sequences'] = ex.execs
        res['maxima'] = dict(depth_reached=ex.depth_reached)
        if sh['part'] == 0:
            res['samples'] = [dict(cfg=sh['cfg'], prefix=list(s), peer_hold=sh['peer_hold']) for s in list(ex.seen.values())[-2:]]
    else:
        rng = random.Random(sh['seed'])
        alpha = S.ALPHABET_C01
        if sh.get('fuzz'):
            # hostile well-framed messages (mutated unit-test corpus) among the peer's messages: whatever they do, the session heals
            alpha = ['OPEN', 'KA', 'OPEN_h9', 'OPEN_h0', 'NOTI_CEASE', 'BADLEN', 'UPD1'] + S.fuzz_alphabet(rng, sh['fuzz']) + S.open_alphabet(rng, max(10, sh['fuzz'] // 5)) + S.noti_alphabet(rng, max(10, sh['fuzz'] // 8))
        for i in range(sh['n']):
            if budget.expired():
                break
            r = S.random_walk(cfg, [OpMonitor], alpha, rng, rng.randint(20, sh['length']), multi=False,
                              weights={'TICK': 5, 'ACCEPT': 4, 'REFUSE': 2, 'STOP': 0.3, 'START': 1.5, 'OPEN': 3, 'KA': 3,
                                       'OPEN_h1': 2, 'OPEN_h0': 2, 'OPEN_h2': 2, 'NOTI_VER': 2, 'PEERRESET': 2},
                              rest=('R_ROOT', 'R_PEERS', 'R_UPD', 'R_RR6'))
            if r.monitors[0].stopped:
                r.step('START')
            continuation(r, sh['cfg'], sh['peer_hold'], stats)
            grab(r)
            res['evaluations'] += 1
            res['distinct'].append('walk|%d|%d' % (sh['seed'], i))
            if i == 0:
                res['samples'].append(dict(cfg=sh['cfg'], walk_len=len(r.seq), walk_head=r.seq[:30], peer_hold=sh['peer_hold']))
        res['counters'] = dict(walks=res['evaluations'])
    res['counters'].update(prefixes_continued=stats['continued'], sessions_stable=stats['stable'], opens_compared=stats['opens_compared'],
                           second_faults_recovered_from=stats['second_faults'], late_close_completions=stats['late_closes'])
    res['sets']['close_completion'] = ['late (separate event)' if sh.get('defer') else 'same instant']
    for k, v in stats['by_state'].items():
        res['counters']['continued_from_%s' % k] = v
    for k, v in stats['by_fault'].items():
        res['counters']['last_fault_%s' % k] = v
    res['maxima']['max_recovery_time_s'] = stats['max_recovery']
    res['sets']['peer_holds'] = [sh['peer_hold']]
    res['violations'] = list(viol.values())
    return res


def floors(m, tier):
    c = m['counters']
    unmet = []
    if c.get('prefixes_continued', 0) < 500:
        unmet.append('fewer than 500 prefixes continued')
    if c.get('opens_compared', 0) < 300:
        unmet.append('fewer than 300 recovered OPENs compared')
    for st in ('IDLE', 'CONNECT', 'OPENSENT', 'OPENCONFIRM', 'ESTABLISHED'):
        if c.get('continued_from_%s' % st, 0) < 1:
            unmet.append('no continuation from state %s' % st)
    if tier == 'quick' and m['counters'].get('truncated_shards', 0):
        # the breadth-first part is meant to complete in the quick tier: a search cut by its time box is not 'held'
        unmet = list(unmet) + ['%d breadth-first shard(s) were cut by their time box' % m['counters']['truncated_shards']]
    return unmet


def replay(rep):
    if 'cadence' in rep:
        return cadence_case(*rep['cadence'])[0]
    S.register_fuzz(rep.get('fuzz'))
    r = S.run_seq(rep['cfg'], rep['events'], [OpMonitor])
    cfgname = [k for k in CFGS if wkw(k).get('time_opts') == rep['cfg'].get('time_opts') and wkw(k).get('local_addr') == rep['cfg'].get('local_addr')]
    stats = dict(continued=0, stable=0, opens_compared=0, max_recovery=0.0, by_state={}, by_fault={}, second_faults=0, late_closes=0)
    out = []
    for ph in PEER_HOLDS:
        r = S.run_seq(rep['cfg'], rep['events'], [OpMonitor])
        continuation(r, cfgname[0] if cfgname else 'default', ph, stats)
        out += r.collect()
    return out
