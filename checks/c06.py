"""C06  UPDATE encode/decode round trip for IPv4 unicast and the standard attributes."""
import itertools
import json
import random

from vlib import gen, refenc, contracts

PROPERTY = 'C06'
LEVEL = 'exploration'
TECHNIQUE = 'runtime contract (icontract post-condition) on the real Update.construct: decoding the constructed message must return exactly the request; evaluated on every call of a boundary/pairwise/random value workload and on the end-to-end REST -> wire -> peer path'
RULE = ('message dictionaries over: every IPv4 prefix length 0..32 x {all-zero, all-one, random} addresses, lists of 0..40 prefixes, every '
        'standard attribute alone and pairwise with every other, integers at 0,1,2^15,2^16-1,2^16,2^31,2^32-1, AS_PATH of every segment type '
        'with 0..255 ASNs (crossing the 255-octet extended-length boundary) in 2- and 4-octet mode, all well-known community names in both '
        'spellings, 18 extended-community kinds, announce+withdraw, withdraw only, attributes without NLRI; the post-condition contract on '
        'Update.construct decodes the result with Update.parse and compares; distinct = distinct message dictionaries; value classes = attribute x boundary bucket')
ASSUMPTIONS = ['icontract post-condition wraps Update.construct before any other yabgp module binds it',
               'expected text forms of communities come from vlib/contracts.py (written from doc/source, not from yabgp code)']
SHARD_TIMEOUT = {'quick': 400, 'thorough': 2400}
CODES = [1, 2, 3, 4, 5, 6, 7, 8, 9, 10, 16, 32]


def to_construct(attrs):
    """generator value -> what the caller hands to Update.construct (ext communities in [code, value] form)"""
    out = {}
    for k, v in attrs.items():
        out[k] = [refenc.ext_construct(e) for e in v] if k == 16 else v
    return out


def bucket(code, v):
    if code in (4, 5):
        return '%d:%s' % (code, 'zero' if v == 0 else 'small' if v < 32768 else '2^15..2^16' if v < 65536 else '2^16..2^31' if v < 2 ** 31 else '>=2^31')
    if code == 2:
        n = sum(len(s[1]) for s in v)
        return '2:segs%d:%s' % (min(len(v), 3), 'empty' if n == 0 else 'short' if n < 60 else 'long' if n < 128 else 'ext-length')
    if code in (8, 10, 32, 16):
        return '%d:n%s' % (code, 0 if not v else 1 if len(v) == 1 else 'few' if len(v) < 10 else 'many')
    return str(code)


def systematic(asn4):
    rng = random.Random(7 + int(asn4))
    # every prefix length x fill, as announce and as withdraw
    for n in range(33):
        for fill in ('zero', 'ones', 'rand'):
            p = gen.prefix4(rng, n, fill)
            yield dict(attr={1: 0, 2: [[2, [65001]]], 3: '10.0.0.1'}, nlri=[p])
            yield dict(withdraw=[p])
            yield dict(attr={1: 0, 2: [], 3: '10.0.0.1'}, nlri=[p, gen.prefix4(rng, 24, 'rand')], withdraw=[gen.prefix4(rng, n, 'rand')])
    # every attribute alone, at every boundary value
    for v in gen.U32:
        yield dict(attr={4: v}, nlri=['192.0.2.0/24'])
        yield dict(attr={5: v}, nlri=['192.0.2.0/24'])
        yield dict(attr={32: ['%d:%d:%d' % (v, 0, 1), '1:%d:%d' % (v, v)]}, nlri=['192.0.2.0/24'])
    for v in (gen.ASN4 if asn4 else gen.ASN2):
        yield dict(attr={7: [v, '192.0.2.1']}, nlri=['192.0.2.0/24'])
        for t in (1, 2, 3, 4):
            yield dict(attr={2: [[t, [v]]]}, nlri=['192.0.2.0/24'])
    for n in (0, 1, 62, 63, 64, 126, 127, 128, 129, 254, 255):
        for t in (1, 2, 3, 4):
            yield dict(attr={2: [[t, [65000 + (i % 500) for i in range(n)]]]}, nlri=['192.0.2.0/24'])
        yield dict(attr={2: [[2, list(range(1, n + 1))], [1, [7, 8]], [2, [9]]]}, nlri=['192.0.2.0/24'])
    for name in sorted(gen.WELL_KNOWN.values()):
        yield dict(attr={8: [name]}, nlri=['192.0.2.0/24'])
        yield dict(attr={8: [name.lower(), '65001:1']}, nlri=['192.0.2.0/24'])
    for hi in gen.U16:
        for lo in gen.U16:
            v = (hi << 16) | lo
            yield dict(attr={8: [gen.WELL_KNOWN.get(v, '%d:%d' % (hi, lo))]}, nlri=['192.0.2.0/24'])
    for k in gen.EXT_KINDS:
        for _ in range(12):
            yield dict(attr={16: [gen.ext_community(rng, k)]}, nlri=['192.0.2.0/24'])
    for ip in ('0.0.0.0', '255.255.255.255', '1.2.3.4', '10.0.0.255'):
        yield dict(attr={3: ip, 9: ip, 10: [ip, '1.1.1.1']}, nlri=['192.0.2.0/24'])
    for n in (0, 1, 2, 40, 255, 256, 257, 600):
        yield dict(attr={1: 2, 2: [], 3: '10.0.0.1'}, nlri=[gen.prefix4(rng, 8 + (i % 24), 'rand') for i in range(n)])
        yield dict(withdraw=[gen.prefix4(rng, 8 + (i % 24), 'rand') for i in range(n)])
    yield dict(attr={1: 0, 2: [], 3: '10.0.0.1', 6: ''}, nlri=['192.0.2.0/24'])
    yield dict(attr={1: 0, 2: [], 3: '10.0.0.1'})
    # pairwise: every attribute with every other
    for a, b in itertools.combinations(CODES, 2):
        for _ in range(3):
            at = gen.std_attrs(rng, asn4, only=[a, b])
            yield dict(attr=at, nlri=['192.0.2.0/24'])
            yield dict(attr=at, nlri=['198.51.100.0/24'], withdraw=['192.0.2.0/24'])


def random_msgs(rng, n, asn4):
    for _ in range(n):
        m = {}
        r = rng.random()
        at = gen.std_attrs(rng, asn4)
        if r < 0.55:
            m = dict(attr=at, nlri=gen.prefix_list4(rng) or ['192.0.2.0/24'])
        elif r < 0.7:
            m = dict(withdraw=gen.prefix_list4(rng) or ['192.0.2.0/24'])
        elif r < 0.9:
            m = dict(attr=at, nlri=gen.prefix_list4(rng) or ['192.0.2.0/24'], withdraw=gen.prefix_list4(rng, 5) or ['203.0.113.0/24'])
        else:
            m = dict(attr=at or {1: 0})
        if not m.get('attr') and m.get('nlri'):
            m['attr'] = {1: 0, 2: [], 3: '10.0.0.1'}
        yield m


def plan(tier, seed):
    n = 16
    per = 40000 if tier == 'quick' else 400000
    return [dict(part=i, nparts=n, seed=seed * 100 + i, n=per, tier=tier) for i in range(n)] + [dict(kind='e2e', seed=seed, n=200 if tier == 'quick' else 3000)]


def classify(rec):
    """mechanism-level kind + features of a contract violation (for known-findings matching)"""
    m, why = rec['msg'], rec['why']
    feats = []
    allp = [(p['prefix'] if isinstance(p, dict) else p) for p in list(m.get('nlri') or []) + list(m.get('withdraw') or [])]
    if rec.get('addpath'):
        feats.append('add-path')
    if any(p.endswith('/0') for p in allp):
        feats.append('prefix-len-0')
    if m.get('withdraw') and m.get('attr'):
        feats.append('withdraw+attr')
    if why.startswith('attributes differ'):
        try:
            keys = sorted(json.loads(why.split(': ', 1)[1]).keys(), key=int)
        except Exception:
            keys = []
        feats += ['attr:%s' % k for k in keys]
        kind = 'attr-roundtrip'
    elif why.startswith('nlri differ'):
        kind = 'nlri-roundtrip'
    elif why.startswith('withdraw differ'):
        kind = 'withdraw-roundtrip'
    elif 'sub_error' in why:
        kind = 'decode-error'
    elif 'construct raised' in why:
        kind = 'construct-raised'
        feats += ['attr:%s' % k for k in sorted((m.get('attr') or {}), key=int)][:3]
    elif 'None' in why:
        kind = 'construct-none'
    else:
        kind = 'roundtrip-other'
    return kind, feats


def run_shard(sh):
    res = dict(evaluations=0, counters={}, maxima={}, sets={}, distinct=[], samples=[], violations=[])
    if sh.get('kind') == 'e2e':
        return run_e2e(sh, res)
    contracts.install()
    from yabgp.message.update import Update
    rng = random.Random(sh['seed'])
    classes = set()
    shapes = {}
    raised = 0
    seen = set()
    for asn4 in (True, False):
        msgs = [m for i, m in enumerate(systematic(asn4)) if i % sh['nparts'] == sh['part']]
        msgs += list(random_msgs(rng, sh['n'] // 2, asn4))
        # add-path sessions (RFC 7911): every prefix carries a path identifier, 0 included
        PIDS = [0, 0, 1, 255, 65536, 4294967295]
        for m in list(random_msgs(rng, sh['n'] // 10, asn4)):
            m = dict(m, addpath=True)
            for part in ('nlri', 'withdraw'):
                if m.get(part):
                    m[part] = [{'prefix': p, 'path_id': rng.choice(PIDS + [rng.getrandbits(32)])} for p in m[part]]
            msgs.append(m)
        for m in msgs:
            key = json.dumps(gen.norm(m), sort_keys=True) + str(asn4)
            if key in seen:
                continue
            seen.add(key)
            cm = dict(m)
            ap = bool(cm.pop('addpath', False))
            if 'attr' in cm:
                cm['attr'] = to_construct(cm['attr'])
            for c, v in (m.get('attr') or {}).items():
                classes.add(bucket(c, v))
            for p in (m.get('nlri') or []) + (m.get('withdraw') or []):
                classes.add('prefix/%s' % (p['prefix'] if isinstance(p, dict) else p).split('/')[1])
            if ap:
                classes.add('add-path')
            shape = '+'.join(k for k in ('attr', 'nlri', 'withdraw') if m.get(k))
            shapes[shape] = shapes.get(shape, 0) + 1
            try:
                Update.construct(cm, asn4, ap)
            except (contracts.RoundTripBroken, contracts.StructureBroken):
                raise
            except Exception as e:
                raised += 1
                contracts.STATE['violations'].append(dict(contract='roundtrip', msg=gen.norm(cm), asn4=asn4,
                                                         why='construct raised %s on a supported in-range request' % type(e).__name__))
            res['evaluations'] += 1
    uniq = {}
    for rec in contracts.STATE['violations']:
        if rec['contract'] != 'roundtrip':
            continue
        kind, feats = classify(rec)
        uniq.setdefault((kind, tuple(feats)), dict(kind=kind, features=feats, detail=rec['why'] + ' | message ' + json.dumps(rec['msg'])[:300],
                                                   replay=dict(msg=rec['msg'], asn4=rec['asn4'], addpath=rec.get('addpath', False))))
    res['violations'] = list(uniq.values())
    res['distinct'] = [str(hash(k)) for k in seen]
    res['counters'] = dict(contract_evaluations=contracts.STATE['evaluations'].get('Update.construct:roundtrip', 0),
                           construct_raised=raised, **{'messages_' + k: v for k, v in shapes.items()})
    res['sets'] = dict(value_classes=sorted(classes))
    res['samples'] = [gen.norm(m) for m in list(random_msgs(random.Random(1), 2, True))]
    return res


def run_e2e(sh, res):
    """REST POST send/update -> wire tap -> the same bytes as peer input to a second world -> handler.update_received"""
    from vlib.world import World
    from vlib import wire
    rng = random.Random(sh['seed'])
    n_ok = 0
    V = {}
    for i in range(sh['n']):
        at = gen.std_attrs(rng, True, with_ext=False)
        at.setdefault(1, 0)
        at.setdefault(2, [[2, [65001]]])
        at.setdefault(3, '10.0.0.1')
        m = dict(attr={str(k): v for k, v in at.items()}, nlri=gen.prefix_list4(rng, 5) or ['192.0.2.0/24'])
        if any(p.endswith('/0') for p in m['nlri']):
            continue
        w = World()
        tr = w.establish()
        n0 = len(tr.written)
        code, body = w.rest('POST', 'send/update', json_body=m)
        if code != 200 or not body or not body.get('status'):
            continue
        sent = [d for _, d in tr.written[n0:]]
        w2 = World(local_as=65002, remote_as=65001, local_addr='10.0.0.2', remote_addr='10.0.0.1')
        tr2 = w2.establish(asn=65001)
        k0 = len(w2.handler.ev)
        for d in sent:
            w2.deliver(d, tr2)
        reps = [e for e in w2.handler.ev[k0:] if e[0] in ('update_received', 'on_update_error')]
        res['evaluations'] += 1
        want = contracts.canon_message(dict(attr=at, nlri=m['nlri']))
        ok = len(reps) == 1 and reps[0][0] == 'update_received' and gen.norm(reps[0][2]['attr']) == want['attr'] and gen.norm(reps[0][2]['nlri']) == want['nlri']
        if ok:
            n_ok += 1
        else:
            V.setdefault('e2e', dict(kind='end-to-end-roundtrip', features=[], detail='posted %s, peer handler saw %s' % (
                json.dumps(m)[:300], str([(r[0], r[2]) for r in reps])[:400]), replay=dict(msg=gen.norm(dict(attr=at, nlri=m['nlri'])), asn4=True)))
    res['counters'] = dict(end_to_end_samples=res['evaluations'], end_to_end_ok=n_ok)
    res['distinct'] = ['e2e|%d|%d' % (sh['seed'], i) for i in range(res['evaluations'])]
    res['violations'] = list(V.values())
    return res


def floors(m, tier):
    c = m['counters']
    unmet = []
    if c.get('contract_evaluations', 0) < 10000:
        unmet.append('fewer than 10000 contract evaluations')
    have = set(m['sets'].get('value_classes', []))
    missing = ['prefix/%d' % n for n in range(33) if 'prefix/%d' % n not in have] + [str(c_) for c_ in (1, 3, 6, 7, 9) if str(c_) not in have]
    if missing:
        unmet.append('value classes never hit: %s' % missing[:6])
    if c.get('end_to_end_samples', 0) < 20:
        unmet.append('fewer than 20 end-to-end samples')
    return unmet


def replay(rep):
    contracts.install()
    from yabgp.message.update import Update
    m = {k: v for k, v in rep['msg'].items()}
    if 'attr' in m:
        m['attr'] = {int(k): v for k, v in m['attr'].items()}
    try:
        Update.construct(m, rep['asn4'], bool(rep.get('addpath')))
    except Exception:
        pass
    out = []
    for rec in contracts.STATE['violations']:
        if rec['contract'] == 'roundtrip':
            kind, feats = classify(rec)
            out.append(dict(kind=kind, features=feats, detail=rec['why']))
    return out
