"""C01  Session state machine follows the RFC 4271 profile for every event order."""
import random

from vlib import budget

from vlib import session as S
from vlib.monitors import ProfileMonitor, EstabMonitor

PROPERTY = 'C01'
LEVEL = 'exploration'
TECHNIQUE = 'runtime monitoring: lock-step comparison of wire tap, close/connect decisions and REST-reported state with an executable RFC 4271 s.8 reference profile (allowed-outcome table), plus an Established-entry trace automaton; small-scope event exploration with same-instant order forks + random walks'
RULE = ('event sequences from boot over {ACCEPT, REFUSE, TICK (incl. TCP timeout, all same-instant timer orders), peer OPEN valid/'
        'bad version/wrong AS/hold 0,1,2,9, KEEPALIVE, UPDATE empty/with a route, NOTIFICATION (2,1)/(6,2), ROUTE-REFRESH, bad marker, '
        'bad length 18/0/4097, unknown type, peer close/reset, STOP, START} in the single-connection regime, explored breadth-first '
        'with fingerprint (implementation + model state) de-duplication over three timer configurations, plus random walks; the same search continued from 13 prefix sessions (hold expiry coinciding with the boot timer, second sessions, stopped peerings, hold 0); UPDATEs incl. unknown address family / malformed / length overrun; every '
        'step of every executed sequence is compared with the profile; walks with UPDATE / NOTIFICATION / ROUTE-REFRESH frames with mutated bodies, with peer OPENs from a grammar (capability sets, packagings, hold times, 2-/4-octet AS forms, at most two faults: version, AS 0, other AS, hold 1/2, non-capability parameter, capability of a wrong length) and with NOTIFICATIONs of every code / sub-code with empty, binary, UTF-8, Latin-1 and cut text data; distinct = distinct abstract states; pairs = (profile state, event) exercised')
ASSUMPTIONS = ['simulated Twisted reactor/connector/transport (verif/shims)',
               'reference profile vlib/fsm_profile.py: allowed-outcome sets are wider than one behaviour in six documented rows (DESIGN.md 3.3)',
               'REST state endpoint is the reported state']
SHARD_TIMEOUT = {'quick': 600, 'thorough': 1800}
CFGS = {
    'default': {},
    'retry40': {'connect_retry_time': 40},
    'small': {'hold_time': 9, 'idle_hold_time': 5, 'connect_retry_time': 40},
}
DEPTH = {'quick': {'default': (3, 6), 'retry40': (3, 5), 'small': (3, 6)},
         'thorough': {'default': (4, 9), 'retry40': (4, 8), 'small': (4, 9)}}
PARTS = {'quick': 5, 'thorough': 5}
WALKS = {'quick': (600, 300), 'thorough': (15000, 300)}
BUDGET = {'quick': 300, 'thorough': 1000}
MON = [ProfileMonitor, EstabMonitor]
# prefix-seeded exploration: sessions whose timers coincide with the boot / idle-hold / retry timers, second sessions,
# stopped peerings - states a breadth-first search from boot reaches only at depth 8-10
PREFIXES = [
    ('default', ['START', 'ACCEPT', 'OPEN_h9', 'TICK', 'TICK', 'KA']),      # hold expiry at 15 s = the boot timer still pending
    ('default', ['START', 'ACCEPT', 'OPEN_h9', 'KA']),
    ('default', ['TICK', 'ACCEPT', 'OPEN_h9', 'KA']),
    ('default', ['TICK', 'ACCEPT', 'OPEN_h9', 'KA', 'NOTI_CEASE']),
    ('default', ['TICK', 'ACCEPT', 'OPEN_h9', 'KA', 'STOP']),
    ('default', ['TICK', 'ACCEPT', 'OPEN_h0', 'KA']),
    ('default', ['TICK', 'ACCEPT', 'OPEN', 'TICK']),
    ('default', ['TICK', 'REFUSE']),
    ('small', ['TICK', 'ACCEPT', 'OPEN', 'KA', 'TICK', 'TICK']),
    ('small', ['TICK', 'ACCEPT', 'OPEN', 'KA', 'PEERCLOSE']),
    ('small', ['START', 'ACCEPT', 'OPEN', 'KA', 'TICK']),
    ('retry40', ['TICK', 'TICK']),
    ('retry40', ['TICK', 'ACCEPT', 'OPEN_h9', 'KA', 'TICK', 'TICK', 'TICK']),
]
PREFIX_DEPTH = {'quick': 3, 'thorough': 5}


def plan(tier, seed):
    shards = []
    for name in CFGS:
        d0, d = DEPTH[tier][name]
        for p in range(PARTS[tier]):
            shards.append(dict(kind='bfs', cfg=name, part=p, nparts=PARTS[tier], d0=d0, depth=d, budget=BUDGET[tier]))
    for i, (name, pre) in enumerate(PREFIXES):
        for p in range(2):
            shards.append(dict(kind='bfs', cfg=name, part=p, nparts=2, d0=1, depth=PREFIX_DEPTH[tier], budget=BUDGET[tier], start=[pre], pre=i))
    n, length = WALKS[tier]
    nshard = 4 if tier == 'quick' else 16
    for i in range(nshard):
        shards.append(dict(kind='walk', seed=seed * 1000 + i, n=n // nshard, length=length, cfg=list(CFGS)[i % 3]))
        shards.append(dict(kind='walk', seed=seed * 1000 + 500 + i, n=n // nshard, length=length, cfg=list(CFGS)[i % 3], fuzz=200 if tier == 'quick' else 2000))
        shards.append(dict(kind='walk', seed=seed * 1000 + 700 + i, n=n // nshard, length=length, cfg=list(CFGS)[i % 3], opens=150 if tier == 'quick' else 1500))
    return shards


def run_shard(sh):
    res = dict(evaluations=0, counters={}, maxima={}, sets={}, distinct=[], samples=[], violations=[])
    cfg = dict(time_opts=CFGS[sh['cfg']])
    viol = {}
    pairs, notifs = set(), set()
    stats = dict(steps_compared=0, established_entries_checked=0, model_order_forks=0)

    def note(r):
        pm, em = r.monitors
        pairs.update(pm.pairs)
        notifs.update(pm.notifs)
        stats['steps_compared'] += pm.steps
        stats['model_order_forks'] += pm.order_forks
        stats['established_entries_checked'] += em.checked
        for v in r.collect():
            viol.setdefault((v['kind'], tuple(v['features'])), v)

    if sh['kind'] == 'bfs':
        ex = S.bfs_shard(cfg, MON, S.ALPHABET_C01, sh['d0'], sh['depth'], sh['part'], sh['nparts'],
                         multi=False, time_budget=sh['budget'], on_run=note, start=sh.get('start'))
        for k, v in ex.viol.items():
            viol.setdefault(k, v)
        res['evaluations'] = ex.execs
        res['distinct'] = ['%s|%d' % (sh['cfg'], hash(k)) for k in ex.seen]
        res['counters'] = dict(executed_sequences=ex.execs, executed_events=ex.events, states=len(ex.seen),
                               regime_cuts=ex.cuts, same_instant_choice_points=ex.choice_points,
                               truncated_shards=int(ex.truncated), **stats)
        if sh.get('start'):
            res['counters']['prefix_seeded_sequences'] = ex.execs
        res['maxima'] = dict(depth_reached=ex.depth_reached)
        if sh['part'] == 0:
            res['samples'] = [dict(cfg=sh['cfg'], events=list(s)) for s in list(ex.seen.values())[-2:]]
    else:
        rng = random.Random(sh['seed'])
        alpha = S.ALPHABET_C01
        if sh.get('fuzz'):
            # UPDATE / NOTIFICATION / ROUTE-REFRESH frames with mutated bodies among the peer's messages
            alpha = ['OPEN', 'OPEN_h9', 'KA', 'KA', 'UPD1', 'NOTI_CEASE'] + S.fuzz_alphabet_typed(rng, sh['fuzz'])
        if sh.get('opens'):
            # peer OPENs from a grammar: capability sets, packagings, hold times, AS forms, one problem at most
            alpha = ['KA', 'KA', 'KA', 'UPD1', 'NOTI_CEASE', 'RR'] + S.open_alphabet(rng, sh['opens']) + S.noti_alphabet(rng, sh['opens'] // 4)
        for i in range(sh['n']):
            if budget.expired():
                break
            r = S.random_walk(cfg, MON, alpha, rng, sh['length'], multi=False,
                              weights={'TICK': 6, 'ACCEPT': 4, 'REFUSE': 1.5, 'STOP': 0.5, 'START': 1.0, 'OPEN': 6, 'KA': 6})
            note(r)
            res['evaluations'] += 1
            res['distinct'].append('walk|%d|%d' % (sh['seed'], i))
            if i == 0:
                res['samples'].append(dict(cfg=sh['cfg'], walk=r.seq[:40]))
        res['counters'] = dict(walks=res['evaluations'], **stats)
    res['sets'] = dict(state_event_pairs=['%s + %s' % p for p in sorted(pairs)], notification_codes=['%s/%s' % n for n in sorted(notifs, key=str)])
    res['violations'] = list(viol.values())
    return res


REQUIRED_PAIRS = [
    ('IDLE', 'TICK'), ('IDLE', 'START'), ('IDLE', 'STOP'), ('IDLE/stopped', 'START'), ('IDLE/stopped', 'TICK'),
    ('CONNECT', 'ACCEPT'), ('CONNECT', 'REFUSE'), ('CONNECT', 'TICK'), ('CONNECT', 'STOP'), ('CONNECT', 'START'),
] + [(s, e) for s in ('OPENSENT', 'OPENCONFIRM', 'ESTABLISHED')
     for e in S.ALPHABET_C01 + ['PEERCLOSE', 'PEERRESET', 'TICK', 'STOP', 'START']]


def floors(m, tier):
    have = set(m['sets'].get('state_event_pairs', []))
    unmet = ['(state,event) pair never exercised: %s + %s' % p for p in REQUIRED_PAIRS if ('%s + %s' % p) not in have]
    if m['counters'].get('established_entries_checked', 0) < 50:
        unmet.append('fewer than 50 Established observations')
    if tier == 'quick' and m['counters'].get('truncated_shards', 0):
        # the breadth-first part is meant to complete in the quick tier: a search cut by its time box is not 'held'
        unmet = list(unmet) + ['%d breadth-first shard(s) were cut by their time box' % m['counters']['truncated_shards']]
    return unmet[:8]


def replay(rep):
    r = S.run_seq(rep['cfg'], rep['events'], MON, fuzz=rep.get('fuzz'), fuzz_meta=rep.get('fuzz_meta'))
    return r.collect()
