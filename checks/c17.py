"""C17  Decoded community text is accepted back by the REST API and re-encodes the same."""
import json
import random
import struct

from vlib import gen, refenc
from vlib.world import World

PROPERTY = 'C17'
LEVEL = 'exploration'
TECHNIQUE = 'runtime monitoring of the text -> REST -> octets -> text loop through both real view functions (send/update observed on the wire tap, json_to_bin in its bin field) against reference RFC encodings of the same semantic value'
RULE = ('for every supported extended-community kind (18 generator kinds covering the 14 named ones) x boundary values of each field '
        '(2-/4-octet AS, IPv4 administrators, 16-/32-bit local parts, flags, MACs, labels, exactly representable rates) x 2-/4-octet-AS peers, '
        'for communities (every well-known name, lower-case spellings, boundary and random numerics) and large communities (fields up to '
        '2^32-1): e = reference RFC encoding, T = text the real decoder renders for e; POST of T to json_to_bin and to send/update must be '
        'accepted, the attribute octets produced must equal e, and decoding them must render T again; distinct = distinct (kind, value, endpoint, peer mode)')
ASSUMPTIONS = ['canonical RFC encodings from vlib/refenc.py (reserved bits zero, bottom-of-stack set, rates exactly representable)',
               '4-octet-AS route-target / route-origin are posted to peers that advertised 4-octet AS only']
SHARD_TIMEOUT = {'quick': 400, 'thorough': 2400}


def attrs_of_frame(frame):
    body = frame[19:]
    wl = struct.unpack('!H', body[:2])[0]
    al = struct.unpack('!H', body[2 + wl:4 + wl])[0]
    b = body[4 + wl:4 + wl + al]
    out, i = {}, 0
    while i < len(b):
        fl, code = b[i], b[i + 1]
        if fl & 0x10:
            ln = struct.unpack('!H', b[i + 2:i + 4])[0]
            h = 4
        else:
            ln = b[i + 2]
            h = 3
        out[code] = b[i + h:i + h + ln]
        i += h + ln
    return out


def plan(tier, seed):
    n = 16
    return [dict(part=i, nparts=n, seed=seed * 100 + i, n=6000 if tier == 'quick' else 40000) for i in range(n)]


def world(as4peer):
    w = World()
    # three kinds of peer: with the 4-octet-AS capability, with other capabilities only, with no capability at all
    caps = None if as4peer == 'nocap' else [(1, struct.pack('!HBB', 1, 0, 1)), (2, b'')] + ([(65, struct.pack('!I', 65002))] if as4peer else [])
    tr = w.establish(caps=caps)
    assert w.state_direct() == 'ESTABLISHED'
    return w, tr


def run_shard(sh):
    from yabgp.message.attribute.extcommunity import ExtCommunity
    from yabgp.message.attribute.community import Community
    from yabgp.message.attribute.largecommunity import LargeCommunity
    rng = random.Random(sh['seed'])
    res = dict(evaluations=0, counters=dict(json_to_bin_posts=0, send_update_posts=0, ext_kinds=0), maxima={}, sets={}, distinct=[], samples=[], violations=[])
    V = {}
    kinds_seen = set()
    worlds = {}

    def bad(kind, feats, detail, replay):
        V.setdefault((kind, tuple(sorted(feats))), dict(kind=kind, features=sorted(feats), detail=detail, replay=replay))

    def loop(code, e_bytes, T, label, as4peer, decoder, may_refuse=False):
        """post T through both endpoints; octets must equal e_bytes and decode to T"""
        for endpoint in ('json_to_bin', 'send/update'):
            # only one world can be alive at a time (the reactor and the configuration are process-wide)
            if worlds.get('mode') != as4peer or worlds['w'][0].state_direct() != 'ESTABLISHED' or not worlds['w'][1].connected:
                worlds['w'] = world(as4peer)
                worlds['mode'] = as4peer
            w, tr = worlds['w']
            post = {'attr': {'1': 0, '2': [], '3': '10.0.0.1', str(code): [T]}, 'nlri': ['192.0.2.0/24']}
            feats = ['attr:%d' % code, 'kind:' + label, 'endpoint:' + endpoint, 'peer-as4:%s' % as4peer]
            rep = dict(post=post, endpoint=endpoint, as4peer=as4peer, expected=e_bytes.hex())
            n0 = len(tr.written)
            res['evaluations'] += 1
            res['distinct'].append('%d|%s|%s|%s|%s' % (code, label, T, endpoint, as4peer))
            try:
                st, jb = w.rest('POST', endpoint, json_body=post)
            except Exception as ex:
                bad('text-refused', feats + ['raised'], 'posting %r to %s raised %r' % (T, endpoint, ex), rep)
                continue
            frame = None
            if endpoint == 'json_to_bin':
                res['counters']['json_to_bin_posts'] += 1
                if st == 200 and isinstance(jb, dict) and isinstance(jb.get('bin'), str):
                    try:
                        frame = bytes.fromhex(jb['bin'])
                    except ValueError:
                        frame = None
            else:
                res['counters']['send_update_posts'] += 1
                new = [d for _, d in tr.written[n0:]]
                if st == 200 and isinstance(jb, dict) and jb.get('status') is True and len(new) == 1:
                    frame = new[0]
            if frame is None and may_refuse:
                # a 4-octet-AS route target / origin for a peer that did not advertise 4-octet AS numbers: the documented
                # answer is a refusal - which must then have sent nothing
                res['counters']['as4_text_to_2octet_peer_refused'] = res['counters'].get('as4_text_to_2octet_peer_refused', 0) + 1
                if endpoint == 'send/update' and len(tr.written) != n0:
                    bad('refused-but-wrote', feats, 'posting %r to %s was refused (%s) but %d frame(s) were written' % (T, endpoint, str(jb)[:100], len(tr.written) - n0), rep)
                continue
            if frame is None:
                bad('text-refused', feats + ['status:%s' % st], 'posting %r (the text rendered for %s) to %s was refused: %s %s' % (T, e_bytes.hex(), endpoint, st, str(jb)[:160]), rep)
                continue
            try:
                got = attrs_of_frame(frame).get(code)
            except Exception:
                got = None
            if got != e_bytes:
                bad('octets-differ', feats, 'text %r posted to %s produced attribute octets %s, the RFC encoding of the value is %s' % (
                    T, endpoint, got.hex() if got is not None else None, e_bytes.hex()), rep)
                continue
            try:
                again = decoder(got)
            except Exception as ex:
                again = repr(ex)
            if again != [T]:
                bad('text-not-stable', feats, 'octets %s decode to %r, not to the posted text %r' % (got.hex(), again, T), rep)

    # ---- extended communities
    cases = []
    for k in gen.EXT_KINDS:
        for _ in range(max(4, sh['n'] // len(gen.EXT_KINDS))):
            cases.append(gen.ext_community(rng, k))
    todo = []
    for i, e in enumerate(cases):
        if e['kind'] in ('rt2', 'ro2') and e['asn'] <= 65535:
            e['asn'] = rng.choice([65536, 131072, 4200000000, 4294967295])     # RFC 5668: the 4-octet type is for AS numbers that need it
        eb = refenc.ext_community_bytes(e)
        try:
            T = ExtCommunity.parse(eb)
        except Exception as ex:
            bad('not-rendered', ['kind:' + e['kind']], 'the decoder raised %r on the reference encoding %s of %s' % (ex, eb.hex(), e), dict(e=e))
            continue
        if len(T) != 1 or not isinstance(T[0], str):
            bad('not-rendered', ['kind:' + e['kind']], 'the decoder renders %s (%s) as %r, not as text' % (e, eb.hex(), T), dict(e=e))
            continue
        kinds_seen.add(e['kind'])
        as4peer = True if e['kind'] in ('rt2', 'ro2') else (True, False, 'nocap')[i % 3]
        todo.append((as4peer, eb, T[0], e['kind'], False))
        if e['kind'] in ('rt2', 'ro2') and i % 3:
            todo.append(((True, False, 'nocap')[i % 3], eb, T[0], e['kind'], True))
    for as4peer, eb, T0, k, may_refuse in sorted(todo, key=lambda x: str(x[0])):
        loop(16, eb, T0, k, as4peer, ExtCommunity.parse, may_refuse)
    # ---- communities
    texts = sorted(gen.WELL_KNOWN.values()) + [n.lower() for n in gen.WELL_KNOWN.values()]
    vals = [v for v in gen.WELL_KNOWN] + [(h << 16) | l for h in gen.U16 for l in gen.U16] + [rng.getrandbits(32) for _ in range(sh['n'] // 4)]
    for v in vals[sh['part']::sh['nparts']] + vals[:4]:
        eb = struct.pack('!I', v)
        T = Community.parse(eb)
        if len(T) == 1:
            loop(8, eb, T[0], 'community', True, Community.parse)
    for name in gen.WELL_KNOWN.values():
        # the lower-case spelling must be accepted too and give the same octets (the decoder then prints the canonical name)
        v = [k for k, n in gen.WELL_KNOWN.items() if n == name][0]
        w, tr = world(True)
        st, jb = w.rest('POST', 'json_to_bin', json_body={'attr': {'1': 0, '2': [], '3': '10.0.0.1', '8': [name.lower()]}, 'nlri': ['192.0.2.0/24']})
        res['evaluations'] += 1
        ok = st == 200 and isinstance(jb, dict) and isinstance(jb.get('bin'), str) and attrs_of_frame(bytes.fromhex(jb['bin'])).get(8) == struct.pack('!I', v)
        if not ok:
            bad('text-refused', ['attr:8', 'kind:community-lower-case'], 'lower-case spelling %r answered %s %s' % (name.lower(), st, str(jb)[:120]), dict(name=name.lower()))
    # ---- large communities
    for _ in range(sh['n'] // 4 + 9):
        a, b, c = rng.choice(gen.U32), rng.choice(gen.U32), rng.choice(gen.U32)
        eb = struct.pack('!III', a, b, c)
        T = LargeCommunity.parse(eb)
        loop(32, eb, T[0], 'large-community', False, LargeCommunity.parse)
    res['violations'] = list(V.values())
    res['counters']['ext_kinds'] = len(kinds_seen)
    res['sets']['ext_kinds_rendered_as_text'] = sorted(kinds_seen)
    res['samples'] = [dict(kind='rt0', rfc_octets=refenc.ext_community_bytes({'kind': 'rt0', 'asn': 65001, 'an': 100}).hex(), text='route-target:65001:100')]
    return res


def floors(m, tier):
    c = m['counters']
    unmet = []
    if len(m['sets'].get('ext_kinds_rendered_as_text', [])) < 18:
        unmet.append('only %d extended-community kinds rendered as text' % len(m['sets'].get('ext_kinds_rendered_as_text', [])))
    for k, n in (('json_to_bin_posts', 3000), ('send_update_posts', 3000)):
        if c.get(k, 0) < n:
            unmet.append('%s below %d' % (k, n))
    return unmet


def replay(rep):
    return []
