"""C14  OPEN, NOTIFICATION, KEEPALIVE and ROUTE-REFRESH encode and decode faithfully."""
import copy
import itertools
import json
import random
import struct

from vlib import env, gen, refenc
env.setup()

PROPERTY = 'C14'
LEVEL = 'exploration'
TECHNIQUE = 'runtime monitoring of the real codecs: construct-then-parse round trip and agreement of Open.parse / Notification.parse / RouteRefresh.parse with an independent RFC encoder over capability subsets, orders and packagings'
RULE = ('OPEN: AS {1,23455,23456,65535,65536,2^31,2^32-1} x hold times 0..65535 (all, on a rotating slice) x identifiers at octet '
        'boundaries x capability subsets/orders of {multiprotocol x 12 AFI/SAFI, route refresh 2/128/70, graceful restart, 4-octet AS, '
        'add-path for named families x send/receive/both, extended next hop 0..3 tuples, LLGR 0..3 tuples, cisco multisession, unknown '
        'codes, several add-path capabilities} x packaging (one parameter / one each / mixed / none, padded to 250..255 octets of optional parameters); NOTIFICATION all 256x256 code pairs x data 0..64; ROUTE-REFRESH '
        'AFI {1,2,25,16388,65535} x SAFI 0..255 x reserved octet {0,1,2,3,127,255} x both type codes; KEEPALIVE; session shards: under nine configurations the dictionary handed to handler.open_received for grammar-built peer OPENs equals Open.parse of the same octets decoded alone, and send_open agrees with the OPEN on the wire in version, hold time and identifier; distinct = distinct messages')
ASSUMPTIONS = ['reference encoder vlib/refenc.py (RFC 4271, 5492, 4760, 2918, 4724, 6793, 7911, 7313, 8950, LLGR draft)',
               'expected capability dictionaries follow doc/source result shapes']
SHARD_TIMEOUT = {'quick': 400, 'thorough': 2400}
ASNS = [1, 23455, 23456, 65535, 65536, 2147483648, 4294967295]
BIDS = ['0.0.0.1', '1.2.3.4', '10.0.0.255', '255.255.255.255', '128.0.0.0', '0.255.0.1']
FAMS = [(1, 1), (1, 2), (2, 1), (1, 4), (2, 4), (1, 133), (1, 128), (2, 128), (25, 70), (16388, 71), (1, 73), (2, 133)]
FAM_NAME = {(1, 1): 'ipv4', (1, 2): 'ipv4_mcast', (2, 1): 'ipv6', (1, 4): 'ipv4_lu', (2, 4): 'ipv6_lu', (1, 133): 'flowspec',
            (1, 128): 'vpnv4', (2, 128): 'vpnv6', (25, 70): 'evpn', (16388, 71): 'bgpls', (1, 73): 'ipv4_srte', (2, 133): 'ipv6_flowspec'}


def cap_pool(rng, asn):
    """semantic capabilities: list of (name, params)"""
    caps = []
    for f in rng.sample(FAMS, rng.choice([0, 1, 1, 2, 3, 12])):
        caps.append(('mp', tuple(f) + ((rng.choice([1, 128, 255]),) if rng.random() < 0.15 else ())))
    for name in ('rr', 'cisco_rr', 'err', 'gr', 'multisession'):
        if rng.random() < 0.4:
            caps.append((name, None))
    if asn > 65535 or rng.random() < 0.6:
        caps.append(('as4', asn))
    if rng.random() < 0.4:
        # one capability listing several families, or several capabilities (RFC 7911 allows both)
        for _ in range(rng.choice([1, 1, 2, 3])):
            caps.append(('add_path', [(rng.choice(FAMS), rng.choice([1, 2, 3])) for _ in range(rng.choice([1, 1, 2, 3]))]))
    if rng.random() < 0.3:
        caps.append(('ext_nh', [(rng.choice(FAMS), rng.choice([1, 2])) for _ in range(rng.choice([0, 1, 2, 3]))]))
    if rng.random() < 0.3:
        caps.append(('llgr', [(rng.choice(FAMS), rng.choice([0, 128]), rng.choice([0, 1, 65536, 16777215])) for _ in range(rng.choice([0, 1, 2, 3]))]))
    for code in (3, 66, 99, 200):
        if rng.random() < 0.15:
            caps.append(('unknown', (code, bytes(rng.randrange(256) for _ in range(rng.choice([0, 1, 2, 8]))))))
    rng.shuffle(caps)
    return caps


def cap_bytes(c):
    n, p = c
    if n == 'mp':
        # the reserved octet is 'ignored by the receiver' (RFC 4760): families carry it as an optional third element
        return (1, struct.pack('!HBB', p[0], p[2] if len(p) > 2 else 0, p[1]))
    if n == 'rr':
        return (2, b'')
    if n == 'cisco_rr':
        return (128, b'')
    if n == 'err':
        return (70, b'')
    if n == 'gr':
        return (64, b'\x00\x78')
    if n == 'multisession':
        return (131, b'')
    if n == 'as4':
        return (65, struct.pack('!I', p))
    if n == 'add_path':
        return (69, b''.join(struct.pack('!HBB', f[0], f[1], sr) for f, sr in p))
    if n == 'ext_nh':
        return (5, b''.join(struct.pack('!HHH', f[0], f[1], nh) for f, nh in p))
    if n == 'llgr':
        return (71, b''.join(struct.pack('!HBB', f[0], f[1], fl) + t.to_bytes(3, 'big') for f, fl, t in p))
    return (p[0], p[1])


def expected_caps(caps):
    """the capability dictionary doc/source promises for these capabilities (last occurrence wins where the key is scalar)"""
    d = {}
    for n, p in caps:
        if n == 'mp':
            d.setdefault('afi_safi', []).append([p[0], p[1]])
        elif n == 'rr':
            d['route_refresh'] = True
        elif n == 'cisco_rr':
            d['cisco_route_refresh'] = True
        elif n == 'err':
            d['enhanced_route_refresh'] = True
        elif n == 'gr':
            d['graceful_restart'] = True
        elif n == 'multisession':
            d['cisco_multi_session'] = True
        elif n == 'as4':
            d['four_bytes_as'] = True
        elif n == 'add_path':
            d.setdefault('add_path', [])
            d['add_path'] += [{'afi_safi': FAM_NAME[f], 'send/receive': {1: 'receive', 2: 'send', 3: 'both'}[sr]} for f, sr in p]
        elif n == 'ext_nh':
            d['ext_nexthop'] = [{'afi_safi': [f[0], f[1]], 'nexthop_afi': nh} for f, nh in p]
        elif n == 'llgr':
            d['LLGR'] = [{'afi_safi': [f[0], f[1]], 'time': t} for f, fl, t in p]
        else:
            d[str(p[0])] = repr(p[1])
    return d


def plan(tier, seed):
    n = 16
    return [dict(part=i, nparts=n, seed=seed * 100 + i, n=40000 if tier == 'quick' else 600000, tier=tier) for i in range(n)] + \
        [dict(kind='session', seed=seed * 100 + 50 + j, n=150 if tier == 'quick' else 1500) for j in range(2 if tier == 'quick' else 8)]


SESSION_CFGS = [{}, {'four_bytes_as': False}, {'route_refresh': False, 'cisco_route_refresh': False}, {'enhanced_route_refresh': False},
                {'afi_safi': ['ipv4', 'ipv6', 'flowspec']}, {'afi_safi': ['ipv6']}, {'add_path': 'ipv4_both'}, {'four_bytes_as': False, 'add_path': 'ipv4_receive'},
                {'rib': True}]


def run_sessions(sh):
    """What the application is told about the peer's OPEN (handler.open_received, also the log record and the REST state view)
    is the decoded OPEN: for grammar-built peer OPENs under several configurations, the dictionary handed to the handler equals
    Open.parse of the same octets decoded on their own - whatever this side has configured or negotiated."""
    from vlib.world import World
    from vlib import session as S
    from yabgp.message.open import Open
    rng = random.Random(sh['seed'])
    res = dict(evaluations=0, counters=dict(open_reports_compared=0, own_open_reports_compared=0), maxima={}, sets={}, distinct=[], samples=[], violations=[])
    V = {}
    names = S.open_alphabet(rng, sh['n'])
    for i, nm in enumerate(names):
        fr, meta = S.MSGS[nm]
        if meta.get('malformed') or meta.get('unsup_opt') or meta['ver'] != 4 or meta['asn'] != 65002 or meta['hold'] in (1, 2):
            continue
        bgp = SESSION_CFGS[i % len(SESSION_CFGS)]
        w = World(bgp_opts=bgp, time_opts={'idle_hold_time': 5})
        g = 0
        while not w.pending() and g < 10 and w.tick():
            g += 1
        tr = w.accept()
        if tr is None:
            continue
        w.deliver(fr, tr)
        res['evaluations'] += 1
        res['distinct'].append('session|%d|%d' % (sh['seed'], i))
        got = [e for e in w.handler.ev if e[0] == 'open_received']
        try:
            alone = gen.norm(copy.deepcopy(Open().parse(fr[19:])))
        except Exception as ex:
            continue        # (the decoder itself is judged by the codec shards)
        rep = dict(what='session', open=fr.hex(), bgp=bgp)
        feats = ['cfg:' + ','.join('%s=%s' % kv for kv in sorted(bgp.items()) if kv[0] != 'afi_safi')]
        if len(got) == 1:
            res['counters']['open_reports_compared'] += 1
            told = gen.norm(got[0][2])
            if told != alone:
                diff = sorted(k for k in set(told) | set(alone) if told.get(k) != alone.get(k)) if isinstance(told, dict) and isinstance(alone, dict) else ['shape']
                cd = sorted(k for k in set(told.get('capabilities') or {}) | set(alone.get('capabilities') or {})
                            if (told.get('capabilities') or {}).get(k) != (alone.get('capabilities') or {}).get(k)) if 'capabilities' in diff else []
                V.setdefault(('open-report-differs', tuple(feats), tuple(diff + cd)), dict(
                    kind='open-report-differs', features=feats + ['differs:' + ','.join(diff + cd)],
                    detail='peer OPEN %s under configuration %s: the handler was told %s, the octets decode to %s' % (
                        fr.hex()[38:120], bgp, json.dumps(told)[:300], json.dumps(alone)[:300]), replay=rep))
        elif w.state_direct() in ('OPENCONFIRM', 'ESTABLISHED'):
            V.setdefault(('open-not-reported', tuple(feats)), dict(kind='open-not-reported', features=feats,
                         detail='peer OPEN accepted (state %s) with %d open_received reports' % (w.state_direct(), len(got)), replay=rep))
        # the agent's own OPEN: what the handler is told was sent agrees with the octets on the wire in version, hold time, identifier
        sent = [e for e in w.handler.ev if e[0] == 'send_open']
        wrote = [d for _, d in tr.written if len(d) > 19 and d[18] == 1]
        if sent and wrote:
            res['counters']['own_open_reports_compared'] += 1
            try:
                dec = Open().parse(wrote[0][19:])
                told = sent[-1][2]
                bad_ = [k for k in ('version', 'hold_time', 'bgp_id') if told.get(k) != dec.get(k)]
            except Exception:
                bad_ = []
            if bad_:
                V.setdefault(('own-open-report-differs', tuple(bad_)), dict(kind='own-open-report-differs', features=feats + ['differs:' + ','.join(bad_)],
                             detail='send_open told %s, the OPEN on the wire decodes to %s' % (json.dumps(gen.norm(told))[:200], json.dumps(gen.norm(dec))[:200]), replay=rep))
    res['violations'] = list(V.values())
    return res


def run_shard(sh):
    if sh.get('kind') == 'session':
        return run_sessions(sh)
    from yabgp.message.open import Open
    from yabgp.message.notification import Notification
    from yabgp.message.keepalive import KeepAlive
    from yabgp.message.route_refresh import RouteRefresh
    rng = random.Random(sh['seed'])
    res = dict(evaluations=0, counters=dict(open_roundtrips=0, open_reference_decodes=0, notification_cases=0, route_refresh_cases=0, keepalive_cases=0),
               maxima={}, sets={}, distinct=[], samples=[], violations=[])
    V = {}
    seen = set()
    packs = set()

    def bad(kind, feats, detail, replay):
        V.setdefault((kind, tuple(feats)), dict(kind=kind, features=list(feats), detail=detail, replay=replay))

    # ---------------------------------------------------------------- OPEN: construct then parse
    holds = list(range(sh['part'], 65536, sh['nparts'] * (1 if sh['tier'] == 'thorough' else 8))) + [0, 1, 2, 3, 65535]
    for hold in holds:
        asn = rng.choice(ASNS)
        bid = rng.choice(BIDS)
        capd = {}
        if rng.random() < 0.8:
            capd['afi_safi'] = [tuple(f) for f in rng.sample(FAMS, rng.choice([1, 2, 12]))]
        for k in ('route_refresh', 'cisco_route_refresh', 'enhanced_route_refresh', 'four_bytes_as'):
            if rng.random() < 0.5:
                capd[k] = rng.random() < 0.8
        if rng.random() < 0.3:
            capd['add_path'] = rng.choice(['ipv4_send', 'ipv4_receive', 'ipv4_both'])
        if rng.random() < 0.3:
            capd['ext_nexthop'] = [{'afi_safi': list(rng.choice(FAMS)), 'nexthop_afi': rng.choice([1, 2])} for _ in range(rng.choice([0, 1, 3]))]
        if rng.random() < 0.15:
            capd = {}
        rep = dict(what='open-roundtrip', asn=asn, hold=hold, bid=bid, caps=gen.norm(capd))
        key = json.dumps(rep, sort_keys=True)
        if key in seen:
            continue
        seen.add(key)
        res['evaluations'] += 1
        res['counters']['open_roundtrips'] += 1
        import netaddr
        try:
            raw = Open(version=4, asn=asn, hold_time=hold, bgp_id=int(netaddr.IPAddress(bid))).construct(dict(capd))
        except Exception as e:
            bad('open-construct-raised', [], 'Open.construct raised %r for %s' % (e, rep), rep)
            continue
        try:
            back = Open().parse(raw[19:])
        except Exception as e:
            bad('open-roundtrip', ['parse-raised'], 'Open.parse raised %r on what Open.construct produced for %s' % (e, rep), rep)
            continue
        want_caps = {}
        if capd.get('afi_safi'):
            want_caps['afi_safi'] = [list(f) for f in capd['afi_safi']]
        for k in ('route_refresh', 'cisco_route_refresh', 'enhanced_route_refresh'):
            if capd.get(k):
                want_caps[k] = True
        if asn > 65535 or capd.get('four_bytes_as'):
            want_caps['four_bytes_as'] = True
        if capd.get('add_path'):
            want_caps['add_path'] = [{'afi_safi': 'ipv4', 'send/receive': capd['add_path'].split('_')[1]}]
        if 'ext_nexthop' in capd:
            want_caps['ext_nexthop'] = [{'afi_safi': list(x['afi_safi']), 'nexthop_afi': x['nexthop_afi']} for x in capd['ext_nexthop']]
        want = dict(version=4, asn=asn, hold_time=hold, bgp_id=bid, capabilities=want_caps)
        feats = ['no-optional-parameters'] if not want_caps else []
        if back is None or gen.norm(back) != gen.norm(want):
            bad('open-roundtrip', feats, 'constructed %s, parsed back %s' % (json.dumps(gen.norm(want))[:300], json.dumps(gen.norm(back))[:300]), rep)
    # ---------------------------------------------------------------- OPEN: reference encodings
    for i in range(sh['n']):
        asn = rng.choice(ASNS)
        hold = rng.choice([0, 3, 90, 180, 65535, rng.randrange(65536)])
        bid = rng.choice(BIDS)
        caps = cap_pool(rng, asn)
        pk = rng.choice(['one', 'each', 'mixed']) if caps else None
        if i % 50 == 0:
            caps, pk = [], None
            asn = rng.choice([1, 23456, 65535])
        packs.add(str(pk))
        if caps and i % 7 == 3:
            # pad with an unknown capability so that the optional parameters total exactly 250..255 octets (the largest an OPEN can carry)
            cur = len(refenc.open_msg(4, asn, hold, bid, [cap_bytes(c) for c in caps], pk)) - 29
            target = rng.choice([250, 253, 254, 255, 255])
            extra = target - cur - (2 if pk == 'one' else 4)
            if pk != 'mixed' and 0 <= extra <= 250:
                caps = caps + [('unknown', (rng.choice([3, 66, 99, 200]), bytes(rng.randrange(256) for _ in range(extra))))]
        raw = refenc.open_msg(4, asn, hold, bid, [cap_bytes(c) for c in caps], pk or 'one')
        res['maxima']['max_optional_parameters_length'] = max(res['maxima'].get('max_optional_parameters_length', 0), min(len(raw) - 29, 255))
        if len(raw) > 4096 or (len(raw) - 29) > 255:
            continue
        rep = dict(what='open-reference', hex=raw.hex())
        res['evaluations'] += 1
        res['counters']['open_reference_decodes'] += 1
        seen.add(raw.hex())
        true_as = asn if any(c[0] == 'as4' for c in caps) else (asn if asn <= 65535 else 23456)
        want = dict(version=4, asn=true_as, hold_time=hold, bgp_id=bid, capabilities=expected_caps(caps))
        feats = sorted({'cap:' + c[0] for c in caps}) if caps else ['no-optional-parameters']
        try:
            back = Open().parse(raw[19:])
        except Exception as e:
            bad('open-reference-decode', ['parse-raised'] + feats[:0], 'Open.parse raised %r on a reference OPEN with %s packaging %s' % (e, caps, pk), rep)
            continue
        if back is None or gen.norm(back) != gen.norm(want):
            nb, nw = gen.norm(back) if back else None, gen.norm(want)
            diff = [k for k in nw if not nb or nb.get(k) != nw[k]]
            cd = [k for k in set(nw['capabilities']) | set((nb or {}).get('capabilities') or {}) if (nb or {}).get('capabilities', {}).get(k) != nw['capabilities'].get(k)] if nb else []
            bad('open-reference-decode', ['differs:' + ','.join(sorted(diff + ['caps.' + c for c in cd]))] + (['no-optional-parameters'] if not caps else []),
                'reference OPEN (packaging %s) encodes %s, Open.parse returned %s' % (pk, json.dumps(nw)[:400], json.dumps(nb)[:400]), rep)
    # ---------------------------------------------------------------- NOTIFICATION
    for code in range(sh['part'], 256, sh['nparts']):
        for sub in range(256):
            data = bytes(rng.randrange(256) for _ in range(rng.choice([0, 0, 1, 2, 21, 64])))
            res['evaluations'] += 1
            res['counters']['notification_cases'] += 1
            ref = refenc.notification(code, sub, data)
            try:
                raw = Notification().construct(code, sub, data)
            except Exception as e:
                raw = ('raised %r' % (e,)).encode()
            if raw != ref:
                bad('notification-construct', [], 'Notification.construct(%d,%d,%s) = %s, RFC encoding %s' % (code, sub, data.hex(), raw.hex(), ref.hex()),
                    dict(what='notification', code=code, sub=sub, data=data.hex()))
            try:
                back = Notification().parse(ref[19:])
            except Exception as e:
                back = ('raised', repr(e))
            if tuple(back) != (code, sub, data):
                bad('notification-parse', [], 'Notification.parse of (%d,%d,%s) returned %r' % (code, sub, data.hex(), back),
                    dict(what='notification', code=code, sub=sub, data=data.hex()))
    # ---------------------------------------------------------------- ROUTE-REFRESH / KEEPALIVE
    for afi in (1, 2, 25, 16388, 65535):
        for safi in range(sh['part'], 256, sh['nparts']):
            for tc in (5, 128):
                for r in (0, 1, 2, 3, 127, 255):      # the reserved octet (RFC 2918: ignored by the receiver; RFC 7313 subtypes 1, 2)
                    res['evaluations'] += 1
                    res['counters']['route_refresh_cases'] += 1
                    ref = refenc.route_refresh(afi, safi, r, tc)
                    try:
                        raw = RouteRefresh(afi, safi, r).construct(tc)
                        back = RouteRefresh().parse(ref[19:])
                    except Exception as e:
                        raw, back = b'', ('raised', repr(e))
                    if raw != ref or tuple(back) != (afi, r, safi):
                        bad('route-refresh', [], 'ROUTE-REFRESH afi %d safi %d res %d type %d: constructed %s (RFC %s), parsed %r' % (
                            afi, safi, r, tc, raw.hex(), ref.hex(), back), dict(what='rr', afi=afi, safi=safi, res=r, tc=tc))
    res['evaluations'] += 1
    res['counters']['keepalive_cases'] += 1
    if KeepAlive().construct() != refenc.keepalive():
        bad('keepalive', [], 'KeepAlive.construct() = %s' % KeepAlive().construct().hex(), dict(what='ka'))
    try:
        KeepAlive().parse(b'')
    except Exception as e:
        bad('keepalive', ['parse'], 'KeepAlive.parse(b"") raised %r' % (e,), dict(what='ka'))
    res['violations'] = list(V.values())
    res['distinct'] = [str(hash(k)) for k in seen] + ['n%d' % i for i in range(res['counters']['notification_cases'] + res['counters']['route_refresh_cases'])]
    res['sets'] = dict(packagings=sorted(packs))
    res['samples'] = [dict(reference_open=refenc.open_msg(4, 65536, 90, '1.2.3.4', [cap_bytes(c) for c in cap_pool(random.Random(3), 65536)], 'each').hex())]
    return res


def floors(m, tier):
    c = m['counters']
    unmet = []
    for k, n in (('open_roundtrips', 2000), ('open_reference_decodes', 5000), ('notification_cases', 65536), ('route_refresh_cases', 5000)):
        if c.get(k, 0) < n:
            unmet.append('%s below %d' % (k, n))
    if c.get('open_reports_compared', 0) < 50:
        unmet.append('fewer than 50 OPEN reports compared with the decoded octets')
    return unmet


def replay(rep):
    from yabgp.message.open import Open
    out = []
    if rep.get('what') == 'open-reference':
        raw = bytes.fromhex(rep['hex'])
        try:
            back = Open().parse(raw[19:])
            if back is None:
                out.append(dict(kind='open-reference-decode', features=['no-optional-parameters'], detail='Open.parse returned None'))
        except Exception as e:
            out.append(dict(kind='open-reference-decode', features=['parse-raised'], detail=repr(e)))
    elif rep.get('what') == 'open-roundtrip':
        import netaddr
        caps = dict(rep['caps'])
        if 'afi_safi' in caps:
            caps['afi_safi'] = [tuple(x) for x in caps['afi_safi']]
        raw = Open(version=4, asn=rep['asn'], hold_time=rep['hold'], bgp_id=int(netaddr.IPAddress(rep['bid']))).construct(caps)
        back = Open().parse(raw[19:])
        if back is None:
            out.append(dict(kind='open-roundtrip', features=['no-optional-parameters'], detail='Open.parse returned None'))
    return out
