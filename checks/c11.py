"""C11  Every decoder terminates on every input; UPDATE decoding never raises."""
import random

from vlib import budget as tbox
import struct

from vlib import decoders, corpus, mutate
from vlib.meter import METER

PROPERTY = 'C11'
LEVEL = 'exploration'
TECHNIQUE = 'runtime monitoring: deterministic work meter (sys.monitoring LINE events on yabgp code objects) around every decoder entry point discovered from the running code; exhaustive short inputs + structure-aware and random mutation of the unit-test corpus'
RULE = ('every decoder entry point found by introspection of yabgp.message.* (x its boolean/protocol-id parameter variants) is called '
        'on: ALL byte strings of length 0-2 (exhaustive; length 3 for the cheapest decoders in the thorough tier), every single-octet '
        'edit, truncation and 16-bit length-field edit of each corpus string it accepts, every registered link-state / Prefix-SID TLV '
        'type x body length 0..16 x 3 fills (alone and nested in an UPDATE), 2-octet heads x 19 short type-length-value tails, reference-encoded UPDATE bodies with every part present (with and without path identifiers), and seeded random mutations up to 4096 octets; a call must '
        'finish (return or raise) within 2000 + 400*len executed yabgp lines; Update.parse must return a result whenever both length '
        'fields fit the body; distinct = distinct (decoder variant, input) pairs executed')
ASSUMPTIONS = ['work measured in executed yabgp source lines (sys.monitoring), not wall-clock time', 'budget 2000 + 400*len(input) lines']
SHARD_TIMEOUT = {'quick': 400, 'thorough': 2400}
NSHARD = 16


TAILS = [bytes.fromhex(x) for x in ('0000', '0100', '0200', '0001', '010100', '4000', 'ff00', '00000000', '02000200', '0002', '000000', '0101', '010001000100',
                                    '0200020002000200', '00ff', '0300000000', '410400', '0104', '000100')]


def budget(n):
    return 2000 + 400 * n


def call_budget(n):
    """Python function calls anywhere in the process during one decoder call (work done for the decoder outside yabgp's
    own lines); measured maximum on the unchanged tree is below 4 per octet"""
    return 3000 + 60 * n


def in_range(body):
    if len(body) < 4:
        return False
    wl = struct.unpack('!H', body[:2])[0]
    if 2 + wl + 2 > len(body):
        return False
    al = struct.unpack('!H', body[2 + wl:4 + wl])[0]
    return 4 + wl + al <= len(body)


class Runner(object):
    def __init__(self):
        self.calls = {}
        self.max_lines = {}
        self.max_per_octet = {}
        self.V = {}
        self.outcomes = {'ok': 0, 'raised': 0, 'budget': 0}
        self.update_results = 0
        self.seen = {}
        self.exhaustive = 0
        self.max_calls_per_octet = 0.0

    def call(self, name, f, data, exhaustive=False):
        if exhaustive:
            self.exhaustive += 1
        else:
            self.seen.setdefault(name, set()).add(hash(data))
        res, val, lines = METER.run(f, data, budget=budget(len(data)), call_budget=call_budget(len(data)))
        if METER.calls / (len(data) + 50.0) > self.max_calls_per_octet:
            self.max_calls_per_octet = METER.calls / (len(data) + 50.0)
        self.calls[name] = self.calls.get(name, 0) + 1
        self.outcomes[res] += 1
        if lines > self.max_lines.get(name, 0):
            self.max_lines[name] = lines
        if data and lines / len(data) > self.max_per_octet.get(name, 0) and len(data) >= 16:
            self.max_per_octet[name] = lines / len(data)
        base = name.split('[')[0]
        if res == 'budget':
            self.V.setdefault(('decoder-budget', base), dict(
                kind='decoder-budget', features=['decoder:' + base],
                detail='%s did not finish within %d lines / %d calls on %d octets (%s): %s' % (name, budget(len(data)), call_budget(len(data)), len(data), str(val)[:80], data[:64].hex()),
                replay=dict(decoder=name, data=data.hex())))
        elif base == 'update.Update.parse':
            if res == 'raised' and in_range(data):
                self.V.setdefault(('update-parse-raises', type(val).__name__), dict(
                    kind='update-parse-raises', features=['exc:' + type(val).__name__],
                    detail='Update.parse raised %r on a body whose length fields fit: %s' % (val, data[:80].hex()),
                    replay=dict(decoder=name, data=data.hex())))
            elif res == 'ok':
                self.update_results += 1
        return res, val


def tlv_types():
    from yabgp.message.attribute.linkstate.linkstate import LinkState
    from yabgp.message.attribute.sr.bgpprefixsid import BGPPrefixSID
    return sorted(LinkState.registered_tlvs), sorted(BGPPrefixSID.registered_tlvs)


def tlv_inputs(full):
    """(target, bytes): link-state attribute values and Prefix-SID values built from every registered type."""
    ls, ps = tlv_types()
    fills = (b'\x00', b'\xff', b'\x01\x02\x03\x04\x05\x06\x07')
    for t in ls + [0, 1, 65535]:
        for n in range(0, 17):
            for fill in fills:
                body = (fill * 17)[:n]
                yield 'ls', struct.pack('!HH', t, n) + body
                # a wrong length field around the same body
                yield 'ls', struct.pack('!HH', t, n + 1) + body
                # nested: sub-TLV-like structure inside with every sub-length
                for sub in (0, 3, 4) if not full else range(0, 17):
                    inner = b'\x00\x00' + b'\x00\x00\x01' + struct.pack('!HH', 1161, sub) + (fill * 17)[:sub]
                    yield 'ls', struct.pack('!HH', t, len(inner)) + inner
    for t in ps + [0, 2, 255]:
        for n in range(0, 17):
            for fill in fills:
                body = (fill * 17)[:n]
                yield 'ps', struct.pack('!BH', t, n) + body
                yield 'ps', struct.pack('!BH', t, n + 1) + body


def nested_inputs():
    """a TLV type nested inside itself as deep as 1 KB / 4 KB allow, around a well-formed and a malformed core:
    decoders that recurse into their value (or re-scan it) show their cost here"""
    ls, ps = tlv_types()
    for t in ls:
        for lead in (0, 4, 8, 12, 16, 20, 22, 24, 28):      # fixed octets before the sub-TLV area (22 = End.X SID, 8 = locator ...)
            # innermost element: empty, just the fixed octets (well formed when the lead fits the type), or malformed
            for core in (struct.pack('!HH', t, 0), struct.pack('!HH', t, lead) + b'\x00' * lead, struct.pack('!HH', t, 200) + b'\x01'):
                for limit in (1000, 4000):
                    d = core
                    while len(d) + 4 + lead <= limit:
                        d = struct.pack('!HH', t, lead + len(d)) + b'\x00' * lead + d
                    yield 'ls', d
    for t in ps:
        for lead in (0, 1, 3, 6):
            for core in (struct.pack('!BH', t, 0), struct.pack('!BH', t, 200) + b'\x01'):
                d = core
                while len(d) + 3 + lead <= 4000:
                    d = struct.pack('!BH', t, lead + len(d)) + b'\x00' * lead + d
                yield 'ps', d


def wrap_update(attr_type, flags, value):
    if len(value) > 255:
        a = struct.pack('!BBH', flags | 0x10, attr_type, len(value)) + value
    else:
        a = struct.pack('!BBB', flags, attr_type, len(value)) + value
    return struct.pack('!H', 0) + struct.pack('!H', len(a)) + a


def plan(tier, seed):
    shards = [dict(kind='decoders', part=i, nparts=NSHARD, seed=seed * 100 + i, tier=tier) for i in range(NSHARD)]
    shards.append(dict(kind='tlv', seed=seed, tier=tier))
    for i in range(4 if tier == 'quick' else 16):
        shards.append(dict(kind='update', seed=seed * 100 + 50 + i, tier=tier, n=4000 if tier == 'quick' else 60000))
    return shards


def run_shard(sh):
    decs = decoders.discover()
    METER.install()
    full = sh['tier'] == 'thorough'
    R = Runner()
    rng = random.Random(sh['seed'])
    res = dict(evaluations=0, counters={}, maxima={}, sets={}, distinct=[], samples=[], violations=[])
    items = [b for _, b in corpus.harvest()]
    by_name = dict(decs)
    if sh['kind'] == 'decoders':
        mine = decs[sh['part']::sh['nparts']]
        short = [bytes([a]) for a in range(256)] + [bytes([a, b]) for a in range(256) for b in range(256)] + [b'']
        for name, f in mine:
            t_lines = 0
            for d in short:
                R.call(name, f, d, exhaustive=True)
            if full and R.max_lines.get(name, 0) < 60:
                for a in range(256):
                    for b in range(0, 256, 1):
                        for c in (0, 1, 3, 4, 16, 32, 128, 255):
                            R.call(name, f, bytes([a, b, c]))
            # small structured inputs: a 2-octet head (code / sub-code, type / length, AFI ...) followed by a short tail of
            # type-length-value shape with zero and small lengths (loops that advance by a length read from the input)
            for a in range(0, 9):
                for b in range(0, 12):
                    for tail in TAILS:
                        R.call(name, f, bytes([a, b]) + tail)
            # valid encodings in the corpus for this decoder = items it decodes without raising
            pool = []
            for b in sorted(items, key=len):
                if len(pool) >= (12 if not full else 40):
                    break
                r, _ = R.call(name, f, b)
                if r == 'ok' and len(b) >= 3:
                    pool.append(b)
            for b in pool:
                for d in mutate.truncations(b):
                    R.call(name, f, d)
                for d in mutate.byte_edits(b, None if not full else range(256)):
                    R.call(name, f, d)
                if len(b) <= 200:
                    for d in mutate.length_edits16(b):
                        R.call(name, f, d)
            # dense periodic inputs: long runs of one value / of a short pattern (quadratic decoders show here)
            for n in (96, 1024, 4096):
                for v in (0, 1, 0x10, 0x18, 0x20, 0x58, 0x70, 0x7f, 0x80, 0xff):
                    R.call(name, f, bytes([v]) * n)
                for pat in (b'\x00\x01', b'\x00\x00\x01', b'\x00\x00\x00\x01', b'\x18\x0a\x00\x01', b'\x00\x04\x00\x00', b'\xff\x00',
                            b'\x40\x01\x01\x00', b'\x00\x00\x00\x00\x00\x00\x00\x01'):
                    R.call(name, f, (pat * (n // len(pat) + 1))[:n])
            for _ in range(2500 if not full else 40000):
                if tbox.expired():
                    break
                base = rng.choice(items)
                d = mutate.random_mutation(base, rng)
                if rng.random() < 0.1:
                    d = mutate.random_mutation(d * rng.randint(1, 40), rng)
                R.call(name, f, d[:4096])
            res['sets'].setdefault('valid_pool_sizes', []).append('%s=%d' % (name, len(pool)))
        res['samples'] = [dict(decoder=mine[0][0], exhaustive_lengths=[0, 1, 2], example_inputs=['', '00', 'ffff'])] if mine else []
    elif sh['kind'] == 'tlv':
        from yabgp.message.attribute.linkstate.linkstate import LinkState
        from yabgp.message.attribute.sr.bgpprefixsid import BGPPrefixSID
        n = 0
        import itertools
        for target, d in itertools.chain(tlv_inputs(full), nested_inputs()):
            n += 1
            if target == 'ls':
                for pid in (None, 1, 2, 3):
                    R.call('attribute.linkstate.linkstate.LinkState.unpack[bgpls_pro_id=%s]' % pid,
                           lambda x, pid=pid: LinkState.unpack(x, pid), d)
                R.call('update.Update.parse[asn4=True][afi_add_path=None]', by_name['update.Update.parse[asn4=True][afi_add_path=None]'],
                       wrap_update(29, 0x80, d))
            else:
                R.call('attribute.sr.bgpprefixsid.BGPPrefixSID.unpack', BGPPrefixSID.unpack, d)
                R.call('update.Update.parse[asn4=True][afi_add_path=None]', by_name['update.Update.parse[asn4=True][afi_add_path=None]'],
                       wrap_update(40, 0xc0, d))
        ls, ps = tlv_types()
        res['counters']['linkstate_tlv_types'] = len(ls)
        res['counters']['prefix_sid_tlv_types'] = len(ps)
        res['counters']['tlv_inputs'] = n
        res['samples'] = [dict(linkstate_types=ls[:10], note='type x len 0..16 x 3 fills, plus len+1, plus nested sub-TLV lengths')]
    else:
        # Update.parse on mutated whole UPDATE bodies (the 'never raises' clause needs in-range bodies)
        ups = [b for t, b in corpus.messages() if t == 2] or [b'\x00\x00\x00\x00']
        # well-formed bodies with every part present - withdrawn routes, attributes and NLRI, with and without path identifiers -
        # from the reference encoder: seeds for mutation, and inputs of their own for every parse variant
        from vlib import refenc, gen
        shaped = []
        for k in range(24):
            wd, nl = gen.prefix_list4(rng, 3) or ['198.51.100.0/24'], gen.prefix_list4(rng, 3) or ['192.0.2.0/24']
            at = {1: 0, 2: [[2, [65001, 65002]]], 3: '10.0.0.1'}
            pids = None if k % 2 else ([rng.choice([0, 1, 65536]) for _ in nl], [rng.choice([0, 7]) for _ in wd])
            try:
                shaped.append(refenc.update(at, nl, wd, asn4=bool(k % 4 < 2), path_ids=pids)[19:])
            except TypeError:
                shaped.append(refenc.update(at, nl, wd, asn4=bool(k % 4 < 2))[19:])
        ups = ups + shaped
        fs = [(n, f) for n, f in decs if n.startswith('update.Update.parse[')]
        inr = 0
        for d in shaped:
            inr += in_range(d)
            for n, f in fs:
                R.call(n, f, d)
        for i in range(sh['n']):
            if tbox.expired():
                break
            base = rng.choice(ups)
            d = mutate.random_mutation(base, rng)
            if rng.random() < 0.5 and len(d) >= 4:
                # repair the two length fields so that they fit
                wl = struct.unpack('!H', d[:2])[0] % max(1, len(d) - 3)
                rest = len(d) - 4 - wl
                al = rng.randint(0, max(0, rest))
                d = struct.pack('!H', wl) + d[2:2 + wl] + struct.pack('!H', al) + d[4 + wl:]
            inr += in_range(d)
            for n, f in fs:
                R.call(n, f, d)
        res['counters']['update_bodies_in_range'] = inr
        res['samples'] = [dict(update_body=rng.choice(ups).hex()[:120])]
    res['evaluations'] = sum(R.calls.values())
    res['distinct'] = ['%s|%d' % (k, v) for k, v in R.calls.items()]
    res['counters'].update(distinct_inputs=R.exhaustive + sum(len(v) for v in R.seen.values()), exhaustive_short_inputs=R.exhaustive,
                           calls=sum(R.calls.values()), returned=R.outcomes['ok'], raised=R.outcomes['raised'],
                           over_budget=R.outcomes['budget'], update_parse_results=R.update_results)
    res['maxima'] = dict(max_lines_any_decoder=max(R.max_lines.values()) if R.max_lines else 0,
                         max_lines_per_octet=round(max(R.max_per_octet.values()), 2) if R.max_per_octet else 0,
                         max_calls_per_octet_plus_50=round(R.max_calls_per_octet, 2))
    res['sets']['decoders_called'] = sorted(R.calls)
    res['sets']['calls_per_decoder'] = ['%s=%d' % kv for kv in sorted(R.calls.items())]
    res['violations'] = list(R.V.values())
    return res


def extra_coverage(m, tier):
    # distinct = total (decoder, input) pairs executed; inputs per decoder are generated without repetition except random ones
    return dict(distinct_nontrivial=m['counters'].get('distinct_inputs', 0), exhaustive=False,
                exhaustive_subspace='all byte strings of length 0..2 for every decoder variant')


def floors(m, tier):
    decs = decoders.discover()
    called = set(m['sets'].get('decoders_called', []))
    missing = [n for n, _ in decs if n not in called]
    unmet = []
    if missing:
        unmet.append('decoders with zero calls: %s' % missing[:5])
    if m['counters'].get('update_parse_results', 0) < 1000:
        unmet.append('fewer than 1000 Update.parse results observed')
    return unmet


def replay(rep):
    decs = dict(decoders.discover())
    METER.install()
    R = Runner()
    name = rep['decoder']
    f = decs.get(name)
    if f is None and 'LinkState.unpack' in name:
        from yabgp.message.attribute.linkstate.linkstate import LinkState
        f = lambda x: LinkState.unpack(x, 1)
    R.call(name, f, bytes.fromhex(rep['data']))
    return list(R.V.values())
