"""C05  Each session's OPEN and its acceptance policy depend only on configuration."""
import itertools
import json
import random
import struct

from vlib import session as S
from vlib import wire
from vlib.world import World, peer_open, KEEPALIVE, frame, reactor, CONF

PROPERTY = 'C05'
LEVEL = 'exploration'
TECHNIQUE = 'runtime monitoring: per-session reference decoding of the OPEN on the wire tap and of the answer to the peer OPEN, measured hold time from the timestamped tap, AS_PATH probe through handler.update_received; histories of 0-4 earlier sessions before the observed one'
RULE = ('configurations (local/remote AS over the 2-/4-octet boundary incl. iBGP, configured hold, 2^5 capability switches x add-path x '
        'vpnv4 ext-nexthop) x peer OPENs (version, AS field / 4-octet capability, hold incl. 0,1,2, capability sets incl. none and well-formed ones without a table entry, My-AS field disagreeing with the capability) x histories '
        'of 0-4 earlier sessions (accepted, rejected for hold/AS/version, capability-poor, capability-rich; ended in OpenConfirm or Established by close, reset, five NOTIFICATION codes, bad marker, stop/start, silence): the OPEN of every connection is '
        'decoded by the reference decoder and compared with the configuration and with the first OPEN of the world; the answer to the '
        'peer OPEN, the measured hold time and the AS_PATH decoding mode are compared with the policy; '
        'peerings over IPv4 and over IPv6 (pinned and multihomed local ends, IPv6 addresses below 2^32 included); distinct = distinct (configuration, history shape, peer OPEN) triples')
ASSUMPTIONS = ['multihomed cases: no local address configured, the simulated socket reports a different local address for every connection', 'ext_nexthop (vpnv4/vpnv6 families) cannot be configured with the installed oslo.config (nested ListOpt default is stringified; get_bgp_config raises) - that capability is not exercised',
               'simulated reactor; the transport reports the configured local address as the local end of the socket',
               'reference OPEN decoder vlib/wire.py']
SHARD_TIMEOUT = {'quick': 400, 'thorough': 2400}
ASNS = [1, 23456, 65535, 65536, 4200000000, 4294967295]
CFG_HOLDS = [0, 3, 90, 180]
PROP_HOLDS = [0, 1, 2, 3, 90, 65535]
MP = (1, struct.pack('!HBB', 1, 0, 1))
CAP_POOLS = {
    'none': None,
    'mp': [MP],
    'mp+rr': [MP, (2, b'')],
    'mp+rr+as4': 'AS4',          # filled with the peer's AS
    'as4only': 'AS4ONLY',
    'rich': 'RICH',
    'unknown': [MP, (66, b'\x01\x02'), (200, b'')],
    # well-formed capabilities (value length right for their code) with contents the agent has no table entry for: the
    # acceptance policy does not depend on them.  Capability values of the wrong length are NOT generated: the statement
    # does not say how a malformed capability is answered.
    'exotic1': [MP, (69, struct.pack('!HBB', 1, 129, 3))],                                   # add-path for an unknown family
    'exotic2': [MP, (69, struct.pack('!HBB', 1, 1, 0)), (69, struct.pack('!HBB', 1, 1, 4))],  # add-path send/receive 0 and 4
    'exotic3': [MP, (1, struct.pack('!HBB', 99, 0, 77)), (1, struct.pack('!HBB', 2, 0, 2))],  # multiprotocol for unknown families
    'exotic4': [MP, (64, b''), (64, b'\x80\x78' + struct.pack('!HBB', 1, 1, 0x80) + struct.pack('!HBB', 99, 9, 0))],     # graceful restart forms
    'exotic5': [MP, (71, struct.pack('!HBB', 1, 1, 0x80) + b'\x00\x00\x3c'), (5, struct.pack('!HHH', 1, 1, 2) + struct.pack('!HHH', 9, 9, 9))],
    'exotic6': [MP, (73, b'\x03abc\x00'), (6, b''), (67, b'\x00' * 3), (66, b'\x01'), (70, b''), (128, b''), (131, b'\x01'), (72, b'\x00\x01\x01')],    # codes without a table entry
    'exotic7': 'SPLIT',        # every capability in an optional parameter of its own is what peer_open already does; here: unknown parameter type is not used (it is an error per RFC)
}


def caps_for(name, asn):
    v = CAP_POOLS[name]
    as4 = (65, struct.pack('!I', asn))
    if v == 'AS4':
        return [MP, (2, b''), as4]
    if v == 'AS4ONLY':
        return [as4]
    if v == 'SPLIT':
        return [MP, (2, b''), (128, b''), (131, b'\x01'), (65, struct.pack('!I', asn)), (69, struct.pack('!HBB', 2, 1, 1) + struct.pack('!HBB', 1, 1, 2))]
    if v == 'RICH':
        return [MP, (1, struct.pack('!HBB', 2, 0, 1)), (2, b''), (128, b''), (70, b''), as4,
                (69, struct.pack('!HBB', 1, 1, 3)), (64, b'\x00\x78')]
    return v


def has_as4(name):
    return CAP_POOLS[name] in ('AS4', 'AS4ONLY', 'RICH', 'SPLIT')


def expected_caps(cfg):
    """capability codes the configuration enables"""
    allowed = {1}
    b = cfg['bgp']
    if b.get('four_bytes_as', True) or cfg['local_as'] > 65535:
        allowed.add(65)
    if b.get('route_refresh', True):
        allowed.add(2)
    if b.get('cisco_route_refresh', True):
        allowed.add(128)
    if b.get('enhanced_route_refresh', True):
        allowed.add(70)
    if b.get('add_path'):
        allowed.add(69)
    if b.get('graceful_restart', True):
        allowed.add(64)
    if b.get('cisco_multi_session', True):
        allowed.add(131)
    if 'vpnv4' in b.get('afi_safi', ['ipv4']) or 'vpnv6' in b.get('afi_safi', ['ipv4']):
        allowed.add(5)
    return allowed


LOCAL_ADDRS = ['192.0.2.1', '198.51.100.7', '203.0.113.200', '10.255.0.1']
# a peering over IPv6: the local end of the socket is an IPv6 address (numerically large, link-local, and below 2^32)
LOCAL_ADDRS6 = ['2001:db8::1', 'fe80::1', '::1', '2001:db8:ffff:ffff:ffff:ffff:ffff:ffff', '::a00:1']


def mk_world(cfg):
    # multihomed: no local address configured, the socket's local end differs from one connection to the next
    kw = {}
    if cfg.get('v6'):
        kw = dict(remote_addr='2001:db8::2', local_addr='::' if cfg.get('multihomed') else LOCAL_ADDRS6[cfg['v6'] % len(LOCAL_ADDRS6)])
    elif cfg.get('multihomed'):
        kw = dict(local_addr='0.0.0.0')
    return World(local_as=cfg['local_as'], remote_as=cfg['remote_as'], time_opts={'hold_time': cfg['hold'], 'idle_hold_time': 5},
                 bgp_opts=cfg['bgp'], **kw)


def next_connection(w):
    if getattr(w, 'multihomed', False):
        w.n_conn = getattr(w, 'n_conn', 0) + 1
        pool = LOCAL_ADDRS6 if getattr(w, 'v6', False) else LOCAL_ADDRS
        reactor.local_host = pool[w.n_conn % len(pool)]
    g = 0
    while not w.pending() and g < 50:
        if not w.tick():
            return None
        g += 1
    return w.accept()


def check_open(w, tr, cfg, first, V, stats, ctx):
    fr = wire.frames_of_writes(tr.written)
    feats = []
    if not fr or fr[0][1] != 1:
        V.append(dict(kind='first-frame-not-open', features=feats, detail='%s: first frame on a new connection is %s' % (ctx, fr[0][1] if fr else None)))
        return None
    o = wire.parse_open(fr[0][2])
    stats['opens_decoded'] += 1
    la = cfg['local_as']
    want_as = la if la <= 65535 else 23456
    probs = []
    if o is None or o.get('caps') is None:
        probs.append('undecodable OPEN (%s)' % (o or {}).get('error'))
    else:
        if o['version'] != 4:
            probs.append('version %s' % o['version'])
        if o['asn'] != want_as:
            probs.append('My-AS %s, expected %s' % (o['asn'], want_as))
        if la > 65535 and o['as4'] != la:
            probs.append('4-octet-AS capability %s, expected %s' % (o['as4'], la))
        if o['as4'] is not None and o['as4'] != la:
            probs.append('4-octet-AS capability carries %s, local AS is %s' % (o['as4'], la))
        if o['hold'] != cfg['hold']:
            probs.append('hold time %s, configured %s' % (o['hold'], cfg['hold']))
        if o['bgp_id'] == 0:
            probs.append('BGP identifier 0')
        codes = {c[0] for c in o['caps']}
        extra = codes - expected_caps(cfg)
        if extra:
            probs.append('capabilities %s not enabled by the configuration' % sorted(extra))
        for c in o['caps']:
            if c[0] == 1 and len(c[1]) == 4:
                afi, _, safi = struct.unpack('!HBB', c[1])
                if (afi, safi) not in [S.C.AFI_SAFI_STR_DICT[a] for a in cfg['bgp'].get('afi_safi', ['ipv4'])]:
                    probs.append('multiprotocol capability for unconfigured family %s/%s' % (afi, safi))
    for p in probs:
        V.append(dict(kind='open-content', features=['field:' + p.split(' ')[0]], detail='%s: %s; OPEN %s' % (ctx, p, fr[0][3].hex())))
    if first is not None and fr[0][3] != first:
        V.append(dict(kind='open-history-dependent', features=[],
                      detail='%s: OPEN differs from the first OPEN of this agent: %s vs %s' % (ctx, fr[0][3].hex(), first.hex())))
    return fr[0][3]


def expected_answer(cfg, po):
    """set of acceptable answers to a peer OPEN in OpenSent: 'KA' or (2, sub)"""
    bad = []
    if po['ver'] != 4:
        bad.append((2, 1))
    # the AS the peer claims: capability value when present, else the 2-octet field (which may disagree with the capability)
    field = po.get('field', po['asn'] if po['asn'] <= 65535 else 23456)
    claimed = po['asn'] if has_as4(po['caps']) else field
    if claimed != cfg['remote_as']:
        bad.append((2, 2))
    if po['hold'] in (1, 2):
        bad.append((2, 6))
    return set(bad) if bad else {'KA'}


def session(w, cfg, po, V, stats, first, ctx, observe):
    """one session: connection, OPEN check, peer OPEN, answer check; returns first OPEN bytes"""
    tr = next_connection(w)
    if tr is None:
        V.append(dict(kind='no-connection', features=[], detail='%s: no connection attempt' % ctx))
        return first, None
    mine = check_open(w, tr, cfg, first, V, stats, ctx)
    first = first or mine
    n_before = len(tr.written)
    t_open = w.now()
    w.deliver(peer_open(asn=po.get('field', po['asn']), hold=po['hold'], ver=po['ver'], caps=caps_for(po['caps'], po['asn']),
                        bid=po.get('bid', 0x0a000002)), tr)
    ans = [wire.summarize(f) for f in wire.frames_of_writes(tr.written[n_before:])]
    exp = expected_answer(cfg, po)
    stats['decisions'] += 1
    got = 'KA' if ans == [(4,)] else (ans[0][1], ans[0][2]) if len(ans) == 1 and ans[0][0] == 3 else repr(ans)
    stats['by_reason'][str(sorted(exp, key=str))] = stats['by_reason'].get(str(sorted(exp, key=str)), 0) + 1
    if got not in exp:
        V.append(dict(kind='open-policy', features=['expected:' + str(sorted(exp, key=str)), 'got:' + str(got)],
                      detail='%s: peer OPEN (version %s, AS %s%s, hold %s, caps %s) with remote AS configured %s answered %s, policy says %s'
                      % (ctx, po['ver'], po['asn'], (' via capability, My-AS field %s' % po.get('field', 'consistent')) if has_as4(po['caps']) else ' (2-octet field only)', po['hold'], po['caps'],
                         cfg['remote_as'], got, sorted(exp, key=str))))
        return first, tr
    if got != 'KA':
        if not (tr.disconnecting or not tr.connected):
            V.append(dict(kind='open-policy', features=['rejected-not-closed'], detail='%s: OPEN rejected with %s but the connection stays open' % (ctx, got)))
        return first, tr
    if po.get('end', {}).get('phase') == 'openconfirm' and not observe:
        return first, tr
    w.deliver(KEEPALIVE, tr)
    if w.state_direct() != 'ESTABLISHED':
        V.append(dict(kind='open-policy', features=['accepted-not-established'], detail='%s: accepted OPEN + KEEPALIVE but state %s' % (ctx, w.state_direct())))
        return first, tr
    if not observe:
        return first, tr
    # ---- AS_PATH decoding mode of this session
    o = wire.parse_open(wire.frames_of_writes(tr.written)[0][2])
    both = (o is not None and o.get('as4') is not None) and has_as4(po['caps'])
    asns = [64500, 65000] + ([4200000001] if both else [])
    seg = bytes([2, len(asns)]) + b''.join(struct.pack('!I' if both else '!H', a) for a in asns)
    attrs = b'\x40\x01\x01\x00' + b'\x40\x02' + bytes([len(seg)]) + seg + b'\x40\x03\x04\x0a\x00\x00\x02'
    upd = frame(2, b'\x00\x00' + struct.pack('!H', len(attrs)) + attrs + b'\x18\xc0\x00\x02')
    n0 = len(w.handler.ev)
    w.deliver(upd, tr)
    reps = [e for e in w.handler.ev[n0:] if e[0] in ('update_received', 'on_update_error')]
    stats['as_mode_probes'] += 1
    stats['as_mode_' + ('4' if both else '2')] += 1
    ok = False
    if len(reps) == 1 and reps[0][0] == 'update_received':
        ap = json.loads(json.dumps(reps[0][2]['attr'].get(2)))
        ok = ap == [[2, asns]]
    if not ok:
        V.append(dict(kind='as-mode', features=['expected:%s-octet' % ('4' if both else '2'),
                                                'local-as4:%s' % (o.get('as4') is not None), 'peer-as4:%s' % has_as4(po['caps'])],
                      detail='%s: AS_PATH %s sent in %s-octet encoding (agent advertised 4-octet AS: %s, peer: %s) was reported as %s'
                      % (ctx, asns, '4' if both else '2', o.get('as4') is not None, has_as4(po['caps']),
                         str([(r[0], r[2].get('attr') if isinstance(r[2], dict) else None) for r in reps])[:300])))
    # ---- hold time of this session = min(configured, proposed): silence until expiry
    H = min(cfg['hold'], po['hold'])
    t_last = w.now()
    n1 = len(tr.written)
    w.advance((H + 5) if H else 600)
    fr = wire.frames_of_writes(tr.written[n1:])
    exp_t = [f[0] for f in fr if wire.summarize(f)[:3] == (3, 4, 0)]
    kas = [f[0] for f in fr if f[1] == 4]
    stats['hold_measurements'] += 1
    if H == 0:
        if exp_t or kas or not tr.connected:
            V.append(dict(kind='hold-negotiation', features=['H0'], detail='%s: negotiated hold 0 (configured %s, proposed %s) but keepalives %s / expiry %s'
                          % (ctx, cfg['hold'], po['hold'], kas[:3], exp_t)))
    else:
        if not exp_t or abs(exp_t[0] - (t_last + H)) > 1e-6:
            V.append(dict(kind='hold-negotiation', features=['Hpos'], detail='%s: configured %s, proposed %s: expiry after %s s of silence, expected %s'
                          % (ctx, cfg['hold'], po['hold'], (exp_t[0] - t_last) if exp_t else None, H)))
        elif kas and abs((kas[0] - t_open) - H / 3.0) > 1e-6:
            V.append(dict(kind='hold-negotiation', features=['keepalive-period'], detail='%s: first periodic KEEPALIVE %s s after the OPEN, expected %s'
                          % (ctx, kas[0] - t_open, H / 3.0)))
    return first, tr


ENDS = ['close', 'reset', 'cease', 'noti_ver', 'noti_as', 'noti_hold', 'noti_fsm', 'badmarker', 'stopstart', 'silence']


def end_session(w, tr, rng, how=None, stats=None):
    if tr is None or not tr.connected or tr.disconnecting:
        return
    how = how or rng.choice(['close', 'reset', 'cease', 'cease'])
    if stats is not None:
        stats['ends'][how + '/' + w.state_direct()] = stats['ends'].get(how + '/' + w.state_direct(), 0) + 1
    if how == 'close':
        w.peer_close(tr, clean=True)
    elif how == 'reset':
        w.peer_close(tr, clean=False)
    elif how == 'cease':
        w.deliver(frame(3, b'\x06\x02'), tr)
    elif how == 'noti_ver':
        w.deliver(frame(3, b'\x02\x01\x00\x04'), tr)
    elif how == 'noti_as':
        w.deliver(frame(3, b'\x02\x02'), tr)
    elif how == 'noti_hold':
        w.deliver(frame(3, b'\x04\x00'), tr)
    elif how == 'noti_fsm':
        w.deliver(frame(3, b'\x05\x00'), tr)
    elif how == 'badmarker':
        w.deliver(b'\x00' * 16 + b'\x00\x13\x04', tr)
    elif how == 'stopstart':
        w.stop()
        w.start()
    elif how == 'silence':
        w.advance(250)
        if tr.connected and not tr.disconnecting:      # hold 0: silence does not end it
            w.peer_close(tr, clean=True)


def run_case(case, V, stats):
    cfg = case['cfg']
    rng = random.Random(case['seed'])
    w = mk_world(cfg)
    w.multihomed = bool(cfg.get('multihomed'))
    w.v6 = bool(cfg.get('v6'))
    first = None
    ctx0 = 'cfg(local %s remote %s hold %s %s)' % (cfg['local_as'], cfg['remote_as'], cfg['hold'], {k: v for k, v in cfg['bgp'].items()})
    for i, po in enumerate(case['history']):
        first, tr = session(w, cfg, po, V, stats, first, ctx0 + ' history session %d' % i, observe=False)
        end_session(w, tr, rng, po.get('end', {}).get('how'), stats)
    first, tr = session(w, cfg, case['peer'], V, stats, first, ctx0 + ' after %d earlier sessions' % len(case['history']), observe=True)


def rand_peer(rng, cfg, good=None):
    good = rng.random() < 0.6 if good is None else good
    end = dict(phase=rng.choice(['openconfirm', 'established']), how=rng.choice(ENDS))
    if good:
        po = dict(ver=4, asn=cfg['remote_as'], hold=rng.choice([0, 3, 90, 65535, 9, 30]), bid=rng.choice([0x0a000002, 0x0a000002, 0x0a000003, 0xc0000201, 1]),
                  caps=rng.choice(['mp+rr+as4', 'rich', 'as4only'] + (['none', 'mp', 'mp+rr', 'unknown'] if cfg['remote_as'] <= 65535 else [])), end=end)
    else:
        po = dict(ver=rng.choice([4, 4, 4, 3, 5]), asn=rng.choice(ASNS + [cfg['remote_as']] * 4), hold=rng.choice(PROP_HOLDS),
                  caps=rng.choice(list(CAP_POOLS)), end=end)
    if rng.random() < 0.15:
        # the 2-octet My-AS field disagrees with the capability value (or is AS_TRANS although the AS would fit)
        po['field'] = rng.choice([23456, 64512, 65535, 1] + [a for a in (cfg['remote_as'], cfg['local_as']) if a <= 65535])
    return po


def gen_cases(rng, n):
    switches = ['four_bytes_as', 'route_refresh', 'cisco_route_refresh', 'enhanced_route_refresh']
    for i in range(n):
        la, ra = rng.choice(ASNS), rng.choice(ASNS)
        if rng.random() < 0.15:
            ra = la
        bgp = {s: rng.random() < 0.6 for s in switches}
        if rng.random() < 0.3:
            bgp['add_path'] = rng.choice(['ipv4_send', 'ipv4_receive', 'ipv4_both'])
        if rng.random() < 0.3:
            bgp['afi_safi'] = rng.choice([['ipv4', 'ipv6'], ['ipv4', 'flowspec', 'evpn'], ['ipv6']])
        cfg = dict(local_as=la, remote_as=ra, hold=rng.choice(CFG_HOLDS), bgp=bgp)
        if rng.random() < 0.25:
            cfg['multihomed'] = True
        if rng.random() < 0.15:
            cfg['v6'] = rng.randint(1, 5)
        hist = [rand_peer(rng, cfg) for _ in range(rng.choice([0, 0, 1, 2, 3, 4]))]
        yield dict(cfg=cfg, history=hist, peer=rand_peer(rng, cfg, good=rng.random() < 0.7), seed=rng.randrange(1 << 30))


def systematic_cases():
    """every (proposed hold x version x AS relation x capability pool) decision on a fixed configuration, no history"""
    for la, ra in ((65001, 65002), (65001, 4200000000), (4200000000, 65002), (65001, 65001), (4294967295, 23456)):
        for ch in (90, 0, 3):
            cfg = dict(local_as=la, remote_as=ra, hold=ch, bgp={})
            for ph in PROP_HOLDS:
                for ver in (4, 3):
                    for asn in {ra, 65009, 23456, 4200000001}:
                        for caps in CAP_POOLS:
                            yield dict(cfg=cfg, history=[], peer=dict(ver=ver, asn=asn, hold=ph, caps=caps), seed=1)
            # the two AS fields of the peer OPEN disagree: the capability value decides when present, else the field
            for asn in (ra, 65009):
                for field in (23456, 64512, 65009, 1) + ((ra,) if ra <= 65535 else ()):
                    for caps in ('mp+rr+as4', 'as4only', 'rich', 'mp', 'none'):
                        yield dict(cfg=cfg, history=[], peer=dict(ver=4, asn=asn, field=field, hold=90, caps=caps), seed=1)
    # every way a session can end (in OpenConfirm and in Established, after an OPEN with other parameters was accepted) before the observed one
    for how in ENDS:
        for phase in ('openconfirm', 'established'):
            for hh, hc in ((30, 'mp'), (0, 'as4only'), (3, 'rich')):
                for ch in (180, 0):
                    cfg = dict(local_as=65001, remote_as=65002, hold=ch, bgp={})
                    hist = [dict(ver=4, asn=65002, hold=hh, caps=hc, end=dict(phase=phase, how=how))]
                    yield dict(cfg=cfg, history=hist, peer=dict(ver=4, asn=65002, hold=90, caps='mp+rr+as4'), seed=3)
                    yield dict(cfg=cfg, history=hist * 2, peer=dict(ver=4, asn=65002, hold=90, caps='mp'), seed=4)
                    if hh == 30:
                        yield dict(cfg=dict(cfg, multihomed=True), history=hist * 2, peer=dict(ver=4, asn=65002, hold=90, caps='mp+rr+as4'), seed=5)
                        yield dict(cfg=dict(cfg, multihomed=True, v6=1), history=hist * 2, peer=dict(ver=4, asn=65002, hold=90, caps='mp+rr+as4'), seed=5)
                    if phase == 'established' and ch == 180:
                        for v6 in range(1, 6):
                            yield dict(cfg=dict(cfg, v6=v6), history=hist if v6 % 2 else [], peer=dict(ver=4, asn=65002, hold=90, caps='mp'), seed=6)
    # every capability-switch subset with a poor and a rich peer before the observed session
    for bits in itertools.product([False, True], repeat=4):
        bgp = dict(zip(['four_bytes_as', 'route_refresh', 'cisco_route_refresh', 'enhanced_route_refresh'], bits))
        for ap in (None, 'ipv4_both'):
            for fam in (['ipv4'], ['ipv4', 'ipv6', 'flowspec']):
                b2 = dict(bgp, afi_safi=fam)
                if ap:
                    b2['add_path'] = ap
                cfg = dict(local_as=65001, remote_as=65002, hold=90, bgp=b2)
                for h in (['none'], ['rich'], ['mp', 'rich'], ['as4only', 'none']):
                    hist = [dict(ver=4, asn=65002, hold=90, caps=c, bid=0x0a000002 + i) for i, c in enumerate(h)]
                    for pc in ('mp+rr+as4', 'mp'):
                        yield dict(cfg=cfg, history=hist, peer=dict(ver=4, asn=65002, hold=30, caps=pc), seed=2)


def plan(tier, seed):
    n = 16
    per = 8000 if tier == 'quick' else 150000
    return [dict(part=i, nparts=n, seed=seed * 100 + i, n=per) for i in range(n)]


def run_shard(sh):
    rng = random.Random(sh['seed'])
    stats = dict(opens_decoded=0, decisions=0, by_reason={}, as_mode_probes=0, as_mode_2=0, as_mode_4=0, hold_measurements=0, ends={})
    V = []
    res = dict(evaluations=0, counters={}, maxima={}, sets={}, distinct=[], samples=[], violations=[])
    cases = [c for i, c in enumerate(systematic_cases()) if i % sh['nparts'] == sh['part']] + list(gen_cases(rng, sh['n']))
    shapes = set()
    for c in cases:
        n0 = len(V)
        run_case(c, V, stats)
        for v in V[n0:]:
            v['replay'] = dict(case=c)
        res['evaluations'] += 1
        res['distinct'].append(json.dumps([c['cfg'], [h['caps'] + str(h['hold']) + str(h['ver']) for h in c['history']], c['peer']], sort_keys=True))
        shapes.add(len(c['history']))
    res['samples'] = cases[-2:]
    uniq = {}
    for v in V:
        uniq.setdefault((v['kind'], tuple(v['features'])), v)
    res['violations'] = list(uniq.values())
    res['counters'] = dict(opens_decoded=stats['opens_decoded'], accept_reject_decisions=stats['decisions'], as_mode_probes=stats['as_mode_probes'],
                           as_mode_4_octet=stats['as_mode_4'], as_mode_2_octet=stats['as_mode_2'], hold_measurements=stats['hold_measurements'])
    for k, v in stats['by_reason'].items():
        res['counters']['decision_expected_%s' % k] = v
    res['sets'] = dict(history_lengths=sorted(shapes), history_session_endings=sorted(stats['ends']))
    return res


def floors(m, tier):
    c = m['counters']
    unmet = []
    for k, n in (('opens_decoded', 2000), ('accept_reject_decisions', 2000), ('as_mode_4_octet', 100), ('as_mode_2_octet', 100), ('hold_measurements', 300)):
        if c.get(k, 0) < n:
            unmet.append('%s below %d' % (k, n))
    return unmet


def replay(rep):
    stats = dict(opens_decoded=0, decisions=0, by_reason={}, as_mode_probes=0, as_mode_2=0, as_mode_4=0, hold_measurements=0, ends={})
    V = []
    run_case(rep['case'], V, stats)
    return V
