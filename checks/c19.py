"""C19  Adj-RIB-In and the version counters track exactly the updates applied."""
import itertools
import json
import random

from vlib import budget
import struct

from vlib import gen, refenc
from vlib.world import reactor, World, KEEPALIVE

PROPERTY = 'C19'
LEVEL = 'exploration'
TECHNIQUE = 'runtime monitoring against an executable dictionary model: after every delivered UPDATE / REST send the Adj-RIB tables (direct read and REST adj-rib endpoints) and the version counters (REST version endpoint) are compared step by step with the model, across session drops'
RULE = ('[bgp] rib = true; sequences of announce / withdraw / re-announce same / re-announce different / withdraw absent / mixed messages over '
        'a pool of IPv4 prefixes (incl. 0.0.0.0/0 and a /32), flowspec rules and VPNv4 routes with 3 attribute sets, interleaved with session '
        'drops (peer close, NOTIFICATION, hold expiry, stop/start) and re-establishment, the same prefix withdrawn and announced by one UPDATE, sessions used in both directions (the other direction must not move); exhaustive to length 4 over a reduced operation set, random to length 200; receive side by peer '
        'UPDATEs (reference encoder), send side through REST send/update; oracle: table == model, empty after a drop, and per message '
        '(version delta > 0) iff (the model table of that family changed), never a decrease, and never by more than the number of route-level changes of the message; REST look-ups of present prefixes (exact answer) and of absent ones (never shown as a route); drops also as a burst of 130 announcements in one segment followed by a stop or a close before the reactor has finished with it; distinct = distinct operation sequences')
ASSUMPTIONS = ['radix stand-in: only exact-prefix lookups that hit the Adj-RIB-In dictionary are judged, longest-match results are not',
               'the size of a version step is bounded by the number of route-level changes of the message (every step answers to a change); below that bound it is recorded, not judged']
SHARD_TIMEOUT = {'quick': 400, 'thorough': 2400}
PFX = ['192.0.2.0/24', '198.51.100.0/25', '0.0.0.0/0', '203.0.113.7/32', '10.0.0.0/8', '172.16.0.0/12']
ATTRS = [{1: 0, 2: [[2, [65002]]], 3: '10.0.0.2'}, {1: 0, 2: [[2, [65002, 65003]]], 3: '10.0.0.2', 4: 50}, {1: 2, 2: [[2, [65002]]], 3: '10.0.0.9', 8: ['NO_EXPORT']}]
FS = [{1: '192.0.2.0/24'}, {1: '192.0.2.0/24', 5: '=80'}, {1: '198.51.100.0/24', 2: '10.0.0.0/8'}, {3: '=6', 5: '>=1024'}]
VPN = [{'rd': '65002:1', 'prefix': '192.0.2.0/24', 'label': [100]}, {'rd': '65002:2', 'prefix': '192.0.2.0/24', 'label': [100]},
       {'rd': '10.0.0.2:1', 'prefix': '10.1.0.0/16', 'label': [200]}, {'rd': '65002:1', 'prefix': '0.0.0.0/0', 'label': [300]}]


def fs_key(rule):
    return json.dumps({str(k): v for k, v in rule.items()}, sort_keys=True)


def vpn_key(r, withdraw=False):
    d = dict(r)
    return json.dumps({k: d[k] for k in ('rd', 'prefix')}, sort_keys=True)


class _Counted(set):
    """set of changed families that also counts how many times each was added (= route-level changes)"""

    def __init__(self):
        set.__init__(self)
        self.n = {}

    def add(self, f):
        self.n[f] = self.n.get(f, 0) + 1
        set.add(self, f)

    def __ior__(self, other):
        for f, c in getattr(other, 'n', {}).items():
            self.n[f] = self.n.get(f, 0) + c
        set.update(self, other)
        return self


class Model(object):
    def __init__(self, rib=True):
        self.rib = rib          # [bgp] rib = false: no IPv4 table is kept, so nothing about IPv4 ever changes
        self.reset()

    def reset(self):
        self.t = {'ipv4': {}, 'flowspec': {}, 'mpls_vpn': {}}

    def apply(self, op):
        """returns set of families whose table changed; self.nchg counts the route-level changes per family"""
        changed = _Counted()
        self.nchg = changed.n
        k = op['kind']
        if k == 'ipv4' and not self.rib:
            return changed
        if k == 'ipv4':
            t = self.t['ipv4']
            for p in op.get('withdraw', []):
                if p in t:
                    del t[p]
                    changed.add('ipv4')
            for p in op.get('nlri', []):
                a = gen.norm(op['attr'])
                if t.get(p) != a:
                    t[p] = a
                    changed.add('ipv4')
        elif k in ('flowspec', 'mpls_vpn'):
            if op.get('nlri') or op.get('withdraw'):
                # the same UPDATE also carries classic IPv4 prefixes (with the attributes of the message, MP attributes aside)
                changed |= self.apply(dict(kind='ipv4', nlri=op.get('nlri', []), withdraw=op.get('withdraw', []), attr=op.get('_ipv4_attr', op['attr'])))
            t = self.t[k]
            keyf = fs_key if k == 'flowspec' else vpn_key
            if op.get('withdraw_routes'):
                # the withdrawn routes may be of the other tracked family (MP_REACH of one, MP_UNREACH of the other)
                wk = op.get('wd_kind', k)
                tw, keyw = self.t[wk], (fs_key if wk == 'flowspec' else vpn_key)
                for r in op['withdraw_routes']:
                    if keyw(r) in tw:
                        del tw[keyw(r)]
                        changed.add(wk)
            for r in op.get('routes', []):
                # (NEXT_HOP is among the attributes of the message only when classic IPv4 prefixes travel with it)
                a = gen.norm(dict({str(k_): v_ for k_, v_ in op['attr'].items()}, nexthop=op.get('nexthop'), with_next_hop=bool(op.get('nlri'))))
                if t.get(keyf(r)) != a:
                    t[keyf(r)] = a
                    changed.add(k)
        return changed


def encode(op):
    """peer UPDATE for an operation (reference encoder)"""
    if op['kind'] == 'ipv4':
        return refenc.update(op.get('attr') if op.get('nlri') else None, op.get('nlri'), op.get('withdraw'), asn4=True)
    afi_safi = [1, 133] if op['kind'] == 'flowspec' else [1, 128]
    attrs = {}
    if op.get('routes'):
        attrs.update(op['attr'])
        attrs.pop(3, None)
        nh = '' if op['kind'] == 'flowspec' else {'rd': '0:0', 'str': op['nexthop']}
        attrs[14] = {'afi_safi': afi_safi, 'nexthop': nh, 'nlri': op['routes']}
    if op.get('withdraw_routes'):
        wr = op['withdraw_routes']
        wk = op.get('wd_kind', op['kind'])
        if wk == 'mpls_vpn':
            wr = [dict(r, label=[524288]) for r in wr]
        attrs[15] = {'afi_safi': [1, 133] if wk == 'flowspec' else [1, 128], 'withdraw': wr}
    if op.get('nlri'):
        attrs.update(op['attr'])
    return refenc.update(attrs, op.get('nlri'), op.get('withdraw'), asn4=True)


def rest_post(op):
    """JSON body of POST send/update for an operation"""
    if op['kind'] == 'ipv4':
        b = {}
        if op.get('nlri'):
            b['attr'] = {str(k): v for k, v in op['attr'].items()}
            b['nlri'] = op['nlri']
        if op.get('withdraw'):
            b['withdraw'] = op['withdraw']
        return b
    afi_safi = [1, 133] if op['kind'] == 'flowspec' else [1, 128]
    attrs = {}
    if op.get('routes'):
        attrs = {str(k): v for k, v in op['attr'].items() if k != 3}
        nh = '' if op['kind'] == 'flowspec' else {'rd': '0:0', 'str': op['nexthop']}
        attrs['14'] = {'afi_safi': afi_safi, 'nexthop': nh, 'nlri': [{str(k): v for k, v in r.items()} for r in op['routes']]}
    if op.get('withdraw_routes'):
        wk = op.get('wd_kind', op['kind'])
        # (a client may write the components of a rule in any order: the withdrawal names them in reverse)
        attrs['15'] = {'afi_safi': [1, 133] if wk == 'flowspec' else [1, 128],
                       'withdraw': [{str(k): v for k, v in (reversed(list(r.items())) if wk == 'flowspec' else r.items())} for r in op['withdraw_routes']]}
    b = {'attr': attrs}
    if op.get('nlri'):
        attrs.update({str(k): v for k, v in op['attr'].items()})
        b['nlri'] = op['nlri']
    if op.get('withdraw'):
        b['withdraw'] = op['withdraw']
    return b


def small_ops():
    p1, p2 = PFX[0], PFX[2]
    a, b = ATTRS[0], ATTRS[1]
    return [dict(kind='ipv4', nlri=[p1], attr=a), dict(kind='ipv4', nlri=[p1], attr=b), dict(kind='ipv4', nlri=[p2], attr=a),
            dict(kind='ipv4', withdraw=[p1]), dict(kind='ipv4', withdraw=[p2]), dict(kind='ipv4', nlri=[p1, p2], attr=a),
            dict(kind='ipv4', nlri=[p2], attr=b, withdraw=[p1]), dict(kind='ipv4', nlri=[p1], attr=b, withdraw=[p1]),
            dict(kind='ipv4', nlri=[p1], attr={}), dict(kind='DROP'), dict(kind='DROP', how='peer-notification')]


def random_op(rng):
    r = rng.random()
    if r < 0.08:
        return dict(kind='DROP', how=rng.choice(['peer-close', 'peer-notification', 'hold-expiry', 'stop-start', 'burst-then-stop']))
    if r < 0.6:
        op = dict(kind='ipv4')
        x = rng.random()
        nl = rng.sample(PFX, rng.choice([1, 1, 2, 3]))
        if rng.random() < 0.1:
            nl = nl + [nl[0]]            # the same prefix named twice in one message: still one route
        if x < 0.55:
            # now and then prefixes announced without any path attribute (a peer can send that; the REST side refuses it)
            # or with an attribute value the agent cannot encode (send side: 'failed when send this message out')
            r_ = rng.random()
            op.update(nlri=nl, attr=rng.choice(ATTRS) if r_ < 0.8 else {} if r_ < 0.9 else {**rng.choice(ATTRS), 8: ['NO-SUCH-COMMUNITY']})
        elif x < 0.85:
            op.update(withdraw=nl)
        elif x < 0.95:
            wd = [p for p in rng.sample(PFX, 2) if p not in nl]
            op.update(nlri=nl, attr=rng.choice(ATTRS), withdraw=wd)
        else:
            # the same prefix withdrawn and announced by one UPDATE: RFC 4271 4.3 - it is announced
            op.update(nlri=nl, attr=rng.choice(ATTRS), withdraw=rng.sample(nl, 1) + [p for p in rng.sample(PFX, 1) if p not in nl])
        return op
    k = 'flowspec' if r < 0.8 else 'mpls_vpn'
    pool = FS if k == 'flowspec' else VPN
    op = dict(kind=k, attr={kk: v for kk, v in rng.choice(ATTRS).items()}, nexthop='10.0.0.2')
    x = rng.random()
    if x < 0.55:
        op['routes'] = rng.sample(pool, rng.choice([1, 1, 2]))
    elif x < 0.8:
        op['withdraw_routes'] = rng.sample(pool, rng.choice([1, 2]))
    else:
        # MP_UNREACH and MP_REACH of the same family in one UPDATE (different routes)
        both = rng.sample(pool, 2)
        op['routes'], op['withdraw_routes'] = [both[0]], [both[1]]
    if op.get('routes') and rng.random() < 0.2:
        # MP_REACH of this family with MP_UNREACH of the other tracked family in one UPDATE
        op['wd_kind'] = 'mpls_vpn' if k == 'flowspec' else 'flowspec'
        op['withdraw_routes'] = rng.sample(VPN if k == 'flowspec' else FS, rng.choice([1, 2]))
    if rng.random() < 0.2:
        # classic IPv4 prefixes travelling in the same UPDATE / request as the MP attribute
        if rng.random() < 0.7:
            op['nlri'] = rng.sample(PFX, rng.choice([1, 2]))
        if rng.random() < 0.5:
            op['withdraw'] = [p for p in rng.sample(PFX, 2) if p not in op.get('nlri', [])]
    return op


class Runner(object):
    def __init__(self, side, V, stats, rib=True):
        self.side, self.V, self.stats = side, V, stats
        self.rib = rib
        self.w = World(bgp_opts={'rib': rib, 'afi_safi': ['ipv4', 'flowspec']}, time_opts={'idle_hold_time': 1})
        self.models = {'recv': Model(rib), 'send': Model(rib)}
        self.model = self.models[side] if side in self.models else None
        self.fixed_side = side
        self.connect()

    def connect(self):
        caps = [(1, struct.pack('!HBB', 1, 0, 1)), (1, struct.pack('!HBB', 1, 0, 133)), (1, struct.pack('!HBB', 1, 0, 128)), (2, b''), (65, struct.pack('!I', 65002))]
        self.tr = self.w.establish(caps=caps)
        assert self.w.state_direct() == 'ESTABLISHED', self.w.state_direct()
        self.vers = {d: self.versions(d) for d in ('recv', 'send')}
        self.ver = self.vers.get(self.side)

    def versions(self, side=None):
        side = side or self.side
        code, body = self.w.rest('GET', 'version/%s' % ('received' if side == 'recv' else 'send'))
        return dict(body['version']) if code == 200 and body and 'version' in body else None

    def bad(self, kind, feats, detail, seq):
        self.V.setdefault((kind, tuple(sorted(feats))), dict(kind=kind, features=sorted(feats), detail=detail, replay=dict(side=self.fixed_side, ops=seq, rib=self.rib)))

    def step(self, op, seq):
        w = self.w
        if op['kind'] == 'DROP':
            pr = w.fsm.protocol
            how = op.get('how', 'peer-close')
            if how == 'peer-close':
                w.peer_close(self.tr, clean=True)
            elif how == 'peer-notification':
                w.deliver(refenc.notification(6, 2), self.tr)           # the agent closes the connection itself
            elif how == 'hold-expiry':
                w.advance(95)
            elif how == 'burst-then-stop':
                # one segment with many announcements, and the operator's stop before the reactor has finished that instant:
                # whatever part of the segment was put off must not be applied to a table that the drop has emptied
                burst = b''.join(refenc.update({1: 0, 2: [[2, [65002]]], 3: '10.0.0.2'}, ['10.%d.%d.0/24' % (j // 256, j % 256)], None, asn4=True) for j in range(130))
                w.lazy = True
                w.deliver(burst, self.tr)
                w.lazy = False
                if self.stats['drops'] % 2:
                    w.stop()
                    w.start()
                else:
                    # ... or the peer's close, seen by the reactor after its next pass over what is queued and due
                    reactor.run_pass()
                    w.peer_close(self.tr, clean=True)
            else:
                w.stop()
                w.start()
            self.stats['drops'] += 1
            self.stats['drops_' + how] = self.stats.get('drops_' + how, 0) + 1
            if pr.adj_rib_in.get('ipv4') or pr.adj_rib_out.get('ipv4'):
                self.bad('rib-not-empty-after-drop', ['side:' + self.side, 'how:' + how], 'after the session dropped (' + how + ') adj_rib_in has %d and adj_rib_out %d IPv4 entries' % (
                    len(pr.adj_rib_in.get('ipv4') or {}), len(pr.adj_rib_out.get('ipv4') or {})), seq)
            for m_ in self.models.values():
                m_.reset()
            self.connect()
            pr2 = w.fsm.protocol
            if pr2.adj_rib_in.get('ipv4') or pr2.adj_rib_out.get('ipv4') or any(any(v.values()) for v in self.vers.values() if v):
                self.bad('state-survives-drop', ['side:' + self.fixed_side], 'the new session starts with RIB %s / %s and versions %s' % (
                    pr2.adj_rib_in.get('ipv4'), pr2.adj_rib_out.get('ipv4'), self.vers), seq)
            return
        # direction of this operation: fixed for the runner, or chosen per operation ('both': one session used in both directions)
        self.side = op.get('dir') or (self.fixed_side if self.fixed_side != 'both' else 'recv')
        other = 'send' if self.side == 'recv' else 'recv'
        self.model = self.models[self.side]
        self.ver = self.vers[self.side]
        refused = False
        n_ev = len(w.handler.ev)
        if op.get('dironly') and op['dironly'] != self.side:
            op = {k_: v_ for k_, v_ in op.items() if k_ not in ('nlri', 'withdraw', 'dironly')}
        if self.side == 'recv':
            if (op.get('attr') or {}).get(8) == ['NO-SUCH-COMMUNITY']:
                op = dict(op, attr={**op['attr'], 8: ['NO_EXPORT']})      # a peer cannot send a community without a value
            w.deliver(encode(op), self.tr)
        else:
            post = rest_post(op)
            # members a client has nothing to say about may be left out, sent as null, or sent empty
            spell = self.stats['steps'] % 4
            if spell in (1, 2):
                for k_, empty in (('nlri', []), ('withdraw', []), ('attr', {})):
                    if k_ not in post:
                        post[k_] = None if spell == 1 else empty
                self.stats['null_or_empty_members'] = self.stats.get('null_or_empty_members', 0) + 1
            code, body = w.rest('POST', 'send/update', json_body=post)
            if not (code == 200 and body and body.get('status') is True):
                # nothing was sent: neither the table nor a counter may move (the model is not advanced)
                self.stats['send_refused'] += 1
                refused = True
        self.stats['steps'] += 1
        if self.side == 'send' and op['kind'] != 'ipv4' and (op.get('nlri') or op.get('withdraw')) and not refused:
            # the request's own attribute dictionary is what the Adj-RIB-Out keeps for the IPv4 prefixes
            posted = rest_post(op)['attr']
            op = dict(op, _ipv4_attr={int(k_): v_ for k_, v_ in posted.items()})
            self.stats['mixed_updates'] = self.stats.get('mixed_updates', 0) + 1
        if self.side == 'recv' and op['kind'] != 'ipv4' and (op.get('nlri') or op.get('withdraw')):
            # IPv4 prefixes next to an MP attribute: their attributes are all path attributes of that UPDATE, as the
            # handler was given them (decoding itself is C09's subject)
            evs = [e for e in w.handler.ev[n_ev:] if e[0] == 'update_received']
            if len(evs) == 1:
                op = dict(op, _ipv4_attr=evs[0][2]['attr'])
            self.stats['mixed_updates'] = self.stats.get('mixed_updates', 0) + 1
        changed = self.model.apply(op) if not refused else set()
        pr = w.fsm.protocol
        ver = self.versions()
        fam = op['kind']
        feats = ['side:' + self.side, 'family:' + fam]
        if w.state_direct() != 'ESTABLISHED':
            self.bad('session-lost', feats, 'operation %s ended the session' % json.dumps(gen.norm(op))[:200], seq)
            return
        # --- tables
        if fam == 'ipv4':
            table = pr.adj_rib_in['ipv4'] if self.side == 'recv' else pr.adj_rib_out['ipv4']
            if self.side == 'send':
                want = {p: {str(k): v for k, v in a.items()} for p, a in self.model.t['ipv4'].items()}
                got = gen.norm({p: {str(k): v for k, v in a.items()} for p, a in table.items()})
            else:
                want, got = self.model.t['ipv4'], gen.norm(table)
            self.stats['table_comparisons'] += 1
            if got != gen.norm(want):
                f2 = feats + (['prefix-len-0'] if any(p.endswith('/0') for p in list(op.get('nlri', [])) + list(op.get('withdraw', []))) else [])
                self.bad('rib-differs', f2, 'after %s the %s table is %s, the model %s' % (
                    json.dumps(gen.norm(op))[:200], 'Adj-RIB-In' if self.side == 'recv' else 'Adj-RIB-Out', json.dumps(got)[:300], json.dumps(gen.norm(want))[:300]), seq)
            # the REST view of the same table (exact prefixes present in the model)
            # (a route received without any path attribute is not shown by the adj-rib-in endpoint: outside the statement, the table itself is judged above)
            present = sorted(p for p in self.model.t['ipv4'] if self.model.t['ipv4'][p] or self.side == 'send')
            if present and self.rib:
                code, body = w.rest('POST', 'adj-rib-in' if self.side == 'recv' else 'adj-rib-out', json_body={'data': present})
                self.stats['rest_rib_queries'] += 1
                ok = code == 200 and body and body.get('status') is True
                if ok and self.side == 'recv':
                    ok = all(gen.norm((body['data'].get(p) or {}).get('attr')) == {str(k): v for k, v in gen.norm(self.model.t['ipv4'][p]).items()} for p in present)
                elif ok:
                    ok = all(gen.norm(body['data'].get(p)) == {str(k): v for k, v in gen.norm(self.model.t['ipv4'][p]).items()} for p in present)
                if not ok:
                    self.bad('rest-rib-differs', feats, 'POST adj-rib-%s for %s answered %s %s' % ('in' if self.side == 'recv' else 'out', present, code, json.dumps(body)[:300]), seq)
            # ... and of what is not in it: a prefix that was withdrawn (or never announced) is not shown as a route of the table
            # (the adj-rib-in view answers with the longest match - a less specific route may be named, never the absent prefix itself)
            absent = sorted(p for p in PFX if p not in self.model.t['ipv4'])
            if absent and self.rib:
                code, body = w.rest('POST', 'adj-rib-in' if self.side == 'recv' else 'adj-rib-out', json_body={'data': absent})
                self.stats['rest_absent_queries'] = self.stats.get('rest_absent_queries', 0) + 1
                if code == 200 and body and body.get('status') is True and isinstance(body.get('data'), dict):
                    for p_ in absent:
                        ans = body['data'].get(p_)
                        shown = (isinstance(ans, dict) and ans.get('prefix') == p_) if self.side == 'recv' else bool(ans)
                        if shown:
                            self.bad('rest-rib-shows-absent', feats, 'POST adj-rib-%s for %s, which is not in the table, answered %s' % (
                                'in' if self.side == 'recv' else 'out', p_, json.dumps(ans)[:200]), seq)
        # --- versions
        if ver is None or self.ver is None:
            self.bad('version-endpoint', feats, 'version endpoint unavailable', seq)
            return
        for f in ('ipv4', 'flowspec', 'mpls_vpn', 'sr_policy'):
            d = ver[f] - self.ver[f]
            self.stats['version_checks'] += 1
            self.stats['max_step'] = max(self.stats['max_step'], d)
            if d < 0:
                self.bad('version-decreased', feats + ['counter:' + f], '%s version went from %d to %d' % (f, self.ver[f], ver[f]), seq)
            elif d > 0 and f in changed and d > getattr(changed, 'n', {}).get(f, d):
                # every step of the counter answers to a change of the table: a message that changes k routes moves it by k at most
                self.bad('version-moved-more-than-changes', feats + ['counter:' + f], 'after %s the %s %s version moved by %d, the table changed in %d route(s)' % (
                    json.dumps(gen.norm(op))[:200], self.side, f, d, changed.n[f]), seq)
            elif (d > 0) != (f in changed):
                self.bad('version-moved-without-change' if d > 0 else 'version-stood-still', feats + ['counter:' + f],
                         'after %s the %s %s version moved by %d although the model table %s' % (
                             json.dumps(gen.norm(op))[:200], self.side, f, d, 'changed' if f in changed else 'did not change'), seq)
        self.vers[self.side] = ver
        # --- the other direction is untouched by this operation: its table and its counters
        otable = pr.adj_rib_out['ipv4'] if self.side == 'recv' else pr.adj_rib_in['ipv4']
        owant = self.models[other].t['ipv4']
        ogot = gen.norm({p: {str(k): v for k, v in a.items()} for p, a in otable.items()})
        self.stats['other_direction_checks'] = self.stats.get('other_direction_checks', 0) + 1
        if ogot != gen.norm({p: {str(k): v for k, v in gen.norm(a).items()} for p, a in owant.items()}):
            self.bad('other-direction-disturbed', feats, 'after the %s operation %s the %s table is %s, its model %s' % (
                self.side, json.dumps(gen.norm(op))[:160], 'Adj-RIB-Out' if self.side == 'recv' else 'Adj-RIB-In', json.dumps(ogot)[:200], json.dumps(gen.norm(owant))[:200]), seq)
        over = self.versions(other)
        if over is not None and self.vers[other] is not None and over != self.vers[other]:
            self.bad('other-direction-disturbed', feats + ['versions'], 'after the %s operation %s the %s versions went from %s to %s' % (
                self.side, json.dumps(gen.norm(op))[:160], other, self.vers[other], over), seq)
        self.vers[other] = over


def plan(tier, seed):
    n = 16
    return [dict(part=i, nparts=n, seed=seed * 100 + i, nrand=18 if tier == 'quick' else 600, length=120 if tier == 'quick' else 300, tier=tier) for i in range(n)]


def run_shard(sh):
    rng = random.Random(sh['seed'])
    res = dict(evaluations=0, counters={}, maxima={}, sets={}, distinct=[], samples=[], violations=[])
    V = {}
    stats = dict(steps=0, drops=0, table_comparisons=0, version_checks=0, rest_rib_queries=0, send_refused=0, max_step=0)
    ops = small_ops()
    seqs = list(itertools.product(range(len(ops)), repeat=4))
    for idx, s in enumerate(seqs):
        if idx % sh['nparts'] != sh['part']:
            continue
        for side in ('recv', 'send'):
            r = Runner(side, V, stats)
            seq = [ops[i] for i in s]
            for j, op in enumerate(seq):
                r.step(op, [gen.norm(o) for o in seq[:j + 1]])
            res['evaluations'] += 1
            res['distinct'].append('x|%s|%s' % (side, s))
    for i in range(sh['nrand']):
        if budget.expired():
            break
        side = ('recv', 'send', 'both')[i % 3]
        r = Runner(side, V, stats, rib=(i % 6) < 4)
        if not r.rib:
            stats['runs_without_rib'] = stats.get('runs_without_rib', 0) + 1
        seq = []
        for j in range(sh['length']):
            op = random_op(rng)
            if side == 'both' and op['kind'] != 'DROP':
                op['dir'] = rng.choice(['recv', 'send'])
            seq.append(gen.norm(op))
            r.step(op, seq[-12:])
        res['evaluations'] += 1
        res['distinct'].append('r|%s|%d|%d' % (side, sh['seed'], i))
    res['violations'] = list(V.values())
    res['counters'] = dict(sequences=res['evaluations'], **{k: v for k, v in stats.items() if k != 'max_step'})
    res['maxima'] = dict(largest_version_step=stats['max_step'])
    res['samples'] = [dict(side='recv', ops=[gen.norm(o) for o in ops[:3]])]
    return res


def floors(m, tier):
    c = m['counters']
    unmet = []
    for k, n in (('steps', 10000), ('drops', 300), ('table_comparisons', 5000), ('version_checks', 20000), ('rest_rib_queries', 2000)):
        if c.get(k, 0) < n:
            unmet.append('%s below %d' % (k, n))
    return unmet


def replay(rep):
    V = {}
    stats = dict(steps=0, drops=0, table_comparisons=0, version_checks=0, rest_rib_queries=0, send_refused=0, max_step=0)
    r = Runner(rep['side'], V, stats, rib=rep.get('rib', True))
    for j, op in enumerate(rep['ops']):
        op = dict(op)
        if 'attr' in op:
            op['attr'] = {int(k): v for k, v in op['attr'].items()}
        for key in ('routes', 'withdraw_routes'):
            if op.get(key) and (op['kind'] if key == 'routes' else op.get('wd_kind', op['kind'])) == 'flowspec':
                op[key] = [{int(k): v for k, v in r_.items()} for r_ in op[key]]
        r.step(op, rep['ops'][:j + 1])
    return list(V.values())
