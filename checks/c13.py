"""C13  Operator stop is final until operator start."""
import random

from vlib import budget

from vlib import session as S
from vlib.monitors import StopMonitor

PROPERTY = 'C13'
LEVEL = 'exploration'
TECHNIQUE = 'runtime monitoring: write/connectTCP hooks + REST state probe after manual-stop, small-scope event exploration (stop at every position, every bounded continuation), cooperative-peer continuation after manual-start'
RULE = ('event sequences from boot over the C12-regime alphabet with STOP/START (REST manual-stop/-start) at every position; '
        'every sequence ending in the stopped state is continued with 300 s of silent time (pending timers/attempts play out), '
        'then manual-start and a cooperative peer, a peer close and the cooperative peer again (automatic recovery in force); '
        'a stop repeated while stopped must write nothing; searches from boot and from 6 prefix sessions, close completion also as a late separate event; distinct = distinct abstract world fingerprints x stopped flag')
ASSUMPTIONS = ['simulated Twisted reactor/connector/transport (verif/shims)',
               'REST requests are atomic events between reactor callbacks, except: operator requests inside an unfinished instant (STOP~ / TICK~ in the prefix-seeded searches, 30 % of the events of every second walk) and one explicit race of a send with a manual stop from two worker threads (known finding rest-send-queued-before-manual-stop)']
SHARD_TIMEOUT = {'quick': 600, 'thorough': 1500}
DEPTH = {'quick': (3, 7), 'thorough': (4, 10)}
PARTS = {'quick': 7, 'thorough': 8}
CFGS = {'quick': [{}, {'connect_retry_time': 10}], 'thorough': [{}, {'connect_retry_time': 10}, {'connect_retry_time': 40, 'idle_hold_time': 5, 'hold_time': 9}]}
WALKS = {'quick': (256, 100), 'thorough': (8000, 300)}
BUDGET = {'quick': 300, 'thorough': 700}

# prefix-seeded exploration (states a search from boot reaches only at depth 8+): a session under a pending boot
# timer, a stop / drop whose close has not completed yet, a restart on top of it
PREFIXES = [
    ['START', 'ACCEPT', 'OPEN', 'KA'],
    ['TICK', 'ACCEPT', 'OPEN', 'KA', 'STOP'],
    ['TICK', 'ACCEPT', 'OPEN', 'KA', 'NOTI_CEASE'],
    ['TICK', 'ACCEPT', 'OPEN', 'KA', 'STOP', 'START'],
    ['TICK', 'ACCEPT', 'OPEN', 'BADMARK', 'START'],
    ['START', 'STOP', 'START'],
]
PREFIX_DEPTH = {'quick': 5, 'thorough': 7}


def plan(tier, seed):
    shards = []
    d0, d = DEPTH[tier]
    for ci, c in enumerate(CFGS[tier]):
        for p in range(PARTS[tier]):
            shards.append(dict(kind='bfs', time_opts=c, part=p, nparts=PARTS[tier], d0=d0, depth=d, budget=BUDGET[tier], defer=bool(ci == 0 and p % 2)))
    for i, pre in enumerate(PREFIXES):
        for c in CFGS['quick']:
            shards.append(dict(kind='bfs', time_opts=c, part=0, nparts=1, d0=1, depth=PREFIX_DEPTH[tier], budget=BUDGET[tier],
                               defer=bool((i + len(c)) % 2 == 0) or tier == 'thorough', start=[pre]))
    shards.append(dict(kind='race', time_opts=CFGS['quick'][0], n=12 if tier == 'quick' else 120, seed=seed))
    n, length = WALKS[tier]
    nshard = 2 if tier == 'quick' else 16
    for i in range(nshard):
        shards.append(dict(kind='walk', seed=seed * 1000 + i, n=n // nshard, length=length, time_opts=CFGS['thorough'][i % 3], defer=bool(i % 2)))
        shards.append(dict(kind='walk', seed=seed * 1000 + 500 + i, n=n // nshard, length=length, time_opts=CFGS['thorough'][i % 3], defer=bool(i % 2),
                           fuzz=150 if tier == 'quick' else 1500))
    return shards


def continuation(r, stats):
    """From a stopped state: silence, then start, cooperative peer, drop, cooperative peer."""
    m = r.monitors[0]
    w = r.w
    if not m.stopped:
        return
    stats['stopped_states'] += 1
    r.step('ADV300')
    r.step('START')
    if m.stopped:
        return
    idle = S.CONF.time.idle_hold_time
    res = S.cooperate(w, 60)
    stats['starts_continued'] += 1
    if res['first_up'] is None:
        m.report('start-no-session', 'after manual-start a cooperative peer did not get Established within 60 s (state %s)'
                 % w.state_direct(), [])
        return
    w.peer_close()
    res2 = S.cooperate(w, idle + 35)
    if w.state_direct() != 'ESTABLISHED':
        m.report('start-no-recovery', 'after manual-start and a peer close, no automatic recovery within idle_hold+35 s (state %s)'
                 % w.state_direct(), [])
    stats['recoveries'] += 1


def run_race(sh, res):
    """An operator's send request and an operator's stop in the same instant, from two REST worker threads: the send view has
    answered and handed its write to the reactor thread (callFromThread) when the stop view runs; the reactor makes the write
    afterwards.  Closes complete late (the write buffer drains after the reactor has run the queued call, as in Twisted)."""
    from vlib.world import World
    from vlib import wire
    rng = random.Random(sh['seed'])
    V = {}
    sends = [('send/update', S.REST_SENDS['R_UPD'][2]), ('send/bin_update', {'binary_data': S.UPD_ROUTE.hex()}), ('send/route-refresh', {'afi': 1, 'safi': 1})]
    for i in range(sh['n']):
        path_, body_ = sends[i % len(sends)]
        w = World(time_opts=sh['time_opts'], defer_close=True)
        tr = w.establish()
        if w.state_direct() != 'ESTABLISHED':
            continue
        res['evaluations'] += 1
        res['distinct'].append('race|%s|%d' % (path_, i))
        w.lazy = True
        code, jb = w.rest('POST', path_, json_body=body_)
        n0 = len(tr.written)
        code2, jb2 = w.stop()
        w.lazy = False
        w.settle()
        after = [wire.summarize(f) for f in wire.frames_of_writes(tr.written[n0:])]
        res['counters']['races_run'] = res['counters'].get('races_run', 0) + 1
        late = [f for f in after if f[0] != 3]
        if isinstance(jb2, dict) and jb2.get('status') is True and late:
            V.setdefault(('write-after-stop', path_), dict(
                kind='write-after-stop', features=['race:send-queued-before-stop', 'rule:' + path_],
                detail='%s answered %s, manual-stop in the same instant answered %s; written after the stop: %s' % (path_, str(jb)[:60], str(jb2)[:40], after),
                replay=dict(kind='race', time_opts=sh['time_opts'], path=path_, body=body_)))
    res['violations'] = list(V.values())
    return res


def run_shard(sh):
    res = dict(evaluations=0, counters={}, maxima={}, sets={}, distinct=[], samples=[], violations=[])
    cfg = dict(time_opts=sh['time_opts'])
    if sh.get('defer'):
        cfg['defer_close'] = True
    stats = dict(stopped_states=0, starts_continued=0, recoveries=0, post_stop_events=0, starts_checked=0)
    by_state = {}
    viol = {}

    def note(r):
        m = r.monitors[0]
        stats['post_stop_events'] += m.post_stop_events
        stats['starts_checked'] += m.starts_checked
        for k, v in m.stops_by_state.items():
            by_state[k] = by_state.get(k, 0) + v

    def grab(r):
        for v in r.collect():
            viol.setdefault((v['kind'], tuple(v['features'])), v)

    if sh['kind'] == 'race':
        return run_race(sh, res)
    if sh['kind'] == 'bfs':
        def on_state(r, seq):
            continuation(r, stats)
            grab(r)

        ex = S.bfs_shard(cfg, [StopMonitor], S.ALPHABET_SMALL, sh['d0'], sh['depth'], sh['part'], sh['nparts'],
                         multi=True, on_state=on_state, time_budget=sh['budget'], on_run=note, start=sh.get('start'),
                         # prefix-seeded searches also try the operator's requests inside an unfinished instant (15.3)
                         rest=('STOP~', 'TICK~') if sh.get('start') else ())
        viol.update({k: v for k, v in ex.viol.items() if k not in viol})
        res['evaluations'] = ex.execs
        res['distinct'] = ['%s|%d' % (sorted(sh['time_opts'].items()), hash(k)) for k in ex.seen]
        res['counters'] = dict(executed_sequences=ex.execs, executed_events=ex.events, states=len(ex.seen),
                               truncated_shards=int(ex.truncated), **stats)
        if sh.get('start'):
            res['counters']['prefix_seeded_sequences'] = ex.execs
        res['maxima'] = dict(depth_reached=ex.depth_reached)
        if sh['part'] == 0:
            res['samples'] = [dict(cfg=sh['time_opts'], events=list(s)) for s in list(ex.seen.values())[-2:]]
    else:
        rng = random.Random(sh['seed'])
        alpha = S.ALPHABET_C01
        if sh.get('fuzz'):
            # hostile well-framed messages (mutated unit-test corpus) among the peer's messages
            alpha = ['OPEN', 'KA', 'OPEN_h9', 'NOTI_CEASE', 'BADLEN', 'UPD1'] + S.fuzz_alphabet(rng, sh['fuzz']) + S.open_alphabet(rng, max(10, sh['fuzz'] // 5)) + S.noti_alphabet(rng, max(10, sh['fuzz'] // 8))
        for i in range(sh['n']):
            if budget.expired():
                break
            r = S.random_walk(cfg, [StopMonitor], alpha, rng, sh['length'], multi=True,
                              weights={'TICK': 6, 'ACCEPT': 3, 'REFUSE': 2, 'STOP': 1.5, 'START': 1.0},
                              rest=('Q_UPD', 'Q_NOTI') if i % 3 == 0 else (), lazy=0.3 if i % 2 else 0.0)
            if not r.monitors[0].stopped:
                r.step('STOP')
            continuation(r, stats)
            note(r)
            grab(r)
            res['evaluations'] += 1
            res['distinct'].append('walk|%d|%d' % (sh['seed'], i))
            if i == 0:
                res['samples'].append(dict(cfg=sh['time_opts'], walk=r.seq[:40]))
        res['counters'] = dict(walks=res['evaluations'], **stats)
    for k, v in by_state.items():
        res['counters']['stops_in_state_%s' % k] = v
    res['violations'] = list(viol.values())
    return res


def floors(m, tier):
    c = m['counters']
    unmet = []
    for st in ('IDLE', 'CONNECT', 'OPENSENT', 'OPENCONFIRM', 'ESTABLISHED'):
        if c.get('stops_in_state_%s' % st, 0) < 1:
            unmet.append('no manual-stop observed in state %s' % st)
    if c.get('post_stop_events', 0) < 100:
        unmet.append('fewer than 100 post-stop events observed')
    if c.get('starts_continued', 0) < 20:
        unmet.append('fewer than 20 start continuations')
    if tier == 'quick' and m['counters'].get('truncated_shards', 0):
        # the breadth-first part is meant to complete in the quick tier: a search cut by its time box is not 'held'
        unmet = list(unmet) + ['%d breadth-first shard(s) were cut by their time box' % m['counters']['truncated_shards']]
    return unmet


def replay(rep):
    if rep.get('kind') == 'race':
        res = dict(evaluations=0, counters={}, distinct=[], violations=[])
        return run_race(dict(time_opts=rep['time_opts'], n=3, seed=1), res)['violations']
    r = S.run_seq(rep['cfg'], rep['events'], [StopMonitor], fuzz=rep.get('fuzz'))
    stats = dict(stopped_states=0, starts_continued=0, recoveries=0)
    if 'ADV300' not in rep['events']:
        continuation(r, stats)
    return r.collect()
