"""C09  Decoding agrees with an independent RFC encoder, including legal variants."""
import ipaddress
import json
import random
import struct

from vlib import env, gen, refenc, corpus
env.setup()

PROPERTY = 'C09'
LEVEL = 'exploration'
TECHNIQUE = 'runtime monitoring: agreement of the real Update.parse (and of BGP.dataReceived -> handler) with an independent RFC reference encoder over value spaces x legal encoding variants, plus single-field corruptions for the error half'
RULE = ('values of the C06/C07 spaces are encoded by the reference encoder (no yabgp code) with variants switched on and off - extended-length '
        'flag on short attributes, non-zero trailing prefix bits, random attribute order, AS4_PATH / AS4_AGGREGATOR present, 2-/4-octet AS '
        'mode, add-path identifiers (codec level) - and Update.parse must return exactly the encoded values with no sub_error; for '
        'corruptions (ORIGIN > 2, prefix length > 32, AS_PATH segment type outside 1..4, every wrong length 0..8 of the fixed-length '
        'attributes) sub_error must be set; a sample goes through dataReceived to handler.update_received / on_update_error; '
        'BGP-LS attribute (type 29): every RFC 7752 section 3.3 node / link / prefix attribute TLV, the RFC 8571 TE metric, RFC 8814 MSD, '
        'RFC 9085 / 9086 segment routing and RFC 9514 SRv6 TLVs, alone and 2..6 per attribute under IS-IS and OSPF protocol ids: no '
        'sub_error, one entry per TLV, and the encoded value for the fields the RFCs name; '
        'distinct = distinct (value, variant set) encodings')
ASSUMPTIONS = ['vlib/refenc.py is the trusted reference; it is calibrated at run time against the byte strings of the unit tests (per-attribute reproduction counts in the evidence)',
               'add-path is exercised at codec level only (the protocol passes afi_add_path={} today)']
SHARD_TIMEOUT = {'quick': 400, 'thorough': 2400}
FIXED = {1: 1, 3: 4, 4: 4, 5: 4, 6: 0, 7: None, 9: 4}     # 7: 6 or 8 by AS mode


def split_attrs(b):
    out, i = [], 0
    while i < len(b):
        fl, code = b[i], b[i + 1]
        if fl & 0x10:
            ln = struct.unpack('!H', b[i + 2:i + 4])[0]
            h = 4
        else:
            ln = b[i + 2]
            h = 3
        out.append((fl, code, b[i + h:i + h + ln], b[i:i + h + ln]))
        i += h + ln
    return out


def calibrate():
    """refenc must reproduce, octet for octet, attribute encodings found in the unit tests (values obtained by decoding them)."""
    from yabgp.message.update import Update
    ok, fail = {}, {}
    blobs = []
    for _, b in corpus.harvest():
        body = b[19:] if b[:16] == b'\xff' * 16 and len(b) > 19 and b[18] == 2 else b
        if len(body) >= 4:
            wl = struct.unpack('!H', body[:2])[0]
            if 4 + wl <= len(body):
                al = struct.unpack('!H', body[2 + wl:4 + wl])[0]
                if 4 + wl + al <= len(body) and al > 0:
                    blobs.append(body[4 + wl:4 + wl + al])
                    continue
        blobs.append(b)
    seen = set()
    for blob in blobs:
        try:
            parts = split_attrs(blob)
            if not parts or b''.join(p[3] for p in parts) != blob or any(p[0] & 0x0f for p in parts):
                continue
        except Exception:
            continue
        for asn4 in (True, False):
            try:
                r = Update.parse_attributes(blob, asn4)
            except Exception:
                continue
            for fl, code, val, raw in parts:
                if raw in seen:
                    continue
                v = r.get(code)
                if v is None or code == 16:
                    continue
                key = str(code) if code not in (14, 15) else '%d:%s' % (code, tuple(v['afi_safi']) if isinstance(v, dict) else '?')
                try:
                    mine = refenc.std_attr_value(code, json.loads(json.dumps(gen.norm(v))), asn4)
                except Exception:
                    continue
                seen.add(raw)
                if mine == val:
                    ok[key] = ok.get(key, 0) + 1
                else:
                    fail.setdefault(key, (val.hex()[:80], mine.hex()[:80]))
            break
    return ok, fail


def plan(tier, seed):
    n = 16
    per = 24000 if tier == 'quick' else 120000
    return [dict(part=i, seed=seed * 100 + i, n=per, tier=tier) for i in range(n)] + [dict(kind='protocol', seed=seed, n=600 if tier == 'quick' else 4000)]


def expected(attrs):
    return gen.norm({k: refenc.expected_attr(k, v) for k, v in attrs.items()})


def make_case(rng):
    asn4 = rng.random() < 0.5
    attrs = gen.std_attrs(rng, asn4)
    variants = dict(ext=rng.random() < 0.3, dirty=(0xff if rng.random() < 0.4 else None), shuffle=rng.random() < 0.5,
                    as4=rng.random() < 0.3, addpath=rng.random() < 0.2, mp=None, reserved=rng.choice([0, 0, 0, 1, 255]))
    if variants['as4']:
        attrs[17] = gen.as_path(rng, True)
        if rng.random() < 0.5:
            attrs[18] = [rng.choice(gen.ASN4), gen.ipv4(rng)]
    r = rng.random()
    if r < 0.1 and not variants['addpath']:
        # IPv4 unicast carried in MP_REACH / MP_UNREACH (decoded by IPv4Unicast.parse)
        if rng.random() < 0.6:
            attrs[14] = {'afi_safi': [1, 1], 'nexthop': gen.ipv4(rng, 'rand'), 'nlri': gen.prefix_list4(rng, 8) or ['192.0.2.0/24']}
        else:
            attrs[15] = {'afi_safi': [1, 1], 'withdraw': gen.prefix_list4(rng, 8) or ['192.0.2.0/24']}
        variants['mp'] = 'ipv4-mp'
    elif r < 0.4:
        fam = rng.choice(gen.FAMILIES)
        wd = rng.random() < 0.3
        attrs[15 if wd else 14] = gen.mp_value(rng, fam, withdraw=wd, nmax=6)
        if fam == 'evpn' and rng.random() < 0.5:
            # IP prefix routes (type 5) among the others: decode side only
            v_ = attrs[15 if wd else 14]
            key_ = 'withdraw' if wd else 'nlri'
            v_[key_] = v_[key_][:3] + [gen.evpn_route5(rng) for _ in range(rng.choice([1, 2]))]
            rng.shuffle(v_[key_])
        variants['mp'] = fam
        if fam in ('ipv4_lu', 'ipv6_lu') and wd:
            del attrs[15]
            variants['mp'] = None
    nlri = gen.prefix_list4(rng, 12) if rng.random() < 0.7 else []
    wdl = gen.prefix_list4(rng, 6) if rng.random() < 0.3 else []
    return asn4, attrs, nlri, wdl, variants


def encode(asn4, attrs, nlri, wdl, variants, rng):
    order = sorted(attrs)
    if variants['shuffle']:
        rng.shuffle(order)
    path_ids = None
    if variants['addpath']:
        path_ids = ([rng.choice(gen.U32) for _ in nlri], [rng.choice(gen.U32) for _ in wdl])
    at = b''
    for code in order:
        if code in (14, 15):
            # the statement names non-zero trailing bits for IPv4 prefixes (Update.parse_prefix_list, IPv4Unicast.parse) only
            d = variants['dirty'] if tuple(attrs[code]['afi_safi']) == (1, 1) else None
            val = refenc.mp_reach_value(attrs[code], d) if code == 14 else refenc.mp_unreach_value(attrs[code], d)
            if code == 14 and variants.get('reserved'):
                # the octet after the next hop 'MUST be ignored on receipt' (RFC 4760; it was the SNPA count of RFC 2858)
                k_ = 4 + val[3]
                val = val[:k_] + bytes([variants['reserved']]) + val[k_ + 1:]
        else:
            val = refenc.std_attr_value(code, attrs[code], asn4)
        at += refenc.attr(code, val, ext=variants['ext'])
    wd = refenc.prefix_list4(wdl, variants['dirty'], path_ids[1] if path_ids else None)
    nl = refenc.prefix_list4(nlri, variants['dirty'], path_ids[0] if path_ids else None)
    body = struct.pack('!H', len(wd)) + wd + struct.pack('!H', len(at)) + at + nl
    return body, path_ids


def vfeatures(attrs, nlri, wdl, variants):
    f = ['variant:' + k for k in ('ext', 'shuffle', 'as4', 'addpath', 'reserved') if variants[k]]
    if variants['dirty'] is not None:
        f.append('variant:dirty-bits')
    for k in (14, 15):
        v = attrs.get(k)
        if not v:
            continue
        routes = v.get('nlri') or v.get('withdraw') or []
        if tuple(v['afi_safi']) == (2, 1) and len(routes) >= 2 and routes[-1] == '::/0' and routes[-2] == '::/0':
            f.append('ipv6-two-trailing-default-routes')
    return f


# ---- BGP-LS attribute (type 29) TLVs of RFC 7752 section 3.3 (and RFC 5307 1.2 for the protection type): body generators and the
# value each body encodes.  'value' None: only "decodes without an error, one entry per TLV" is judged (opaque / flag fields whose
# printed form is the decoder's own choice).
LS_PROTECTION = {1: 'Extra Traffic', 2: 'Unprotected', 4: 'Shared', 8: 'Dedicated 1:1', 16: 'Dedicated 1+1', 32: 'Enhanced'}


def _f32(x):
    return struct.unpack('!f', struct.pack('!f', x))[0]


class Paths(list):
    """[(path into the decoded value, encoded field value)]: fields whose names RFC 7752 / 8571 / 9085 / 9514 give"""


def _u24(x):
    return x.to_bytes(3, 'big')


def ls_tlv_sr(rng, t, proto):
    """segment routing (RFC 9085, 9086), SRv6 (RFC 9514), MSD (RFC 8814) and TE metric (RFC 8571) TLVs"""
    isis = proto in (1, 2)
    lab = rng.choice([16, 16000, 24001, 1048575])
    idx = rng.choice([0, 1, 100, 4294967295])
    w = rng.choice([0, 1, 10, 255])
    alg = rng.choice([0, 1, 128, 255])
    sid6 = gen.ipv6(rng, rng.choice(['doc', 'doc', 'rand', 'small']))
    beh = rng.choice([1, 5, 48, 65535])
    if t == 258:
        a, b = rng.choice(gen.U32), rng.choice(gen.U32)
        return struct.pack('!II', a, b), Paths([(['local_identifier'], a), (['remote_identifier'], b)])
    if t in (266, 267, 1050):
        n = 1 if t != 266 else rng.choice([1, 2, 3])
        return bytes(x for _ in range(n) for x in (rng.choice([1, 2, 41]), rng.choice([0, 10, 255]))), None
    if t in (1034, 1036):
        ranges = b''.join(_u24(rng.choice([1, 8000, 16777215])) + (struct.pack('!HH', 1161, 3) + _u24(lab) if rng.random() < 0.6 else struct.pack('!HHI', 1161, 4, idx))
                          for _ in range(rng.choice([1, 2])))
        return bytes([rng.choice([0x80, 0x40, 0xc0, 0]), 0]) + ranges, None
    if t == 1035:
        vs = [rng.choice([0, 1, 128, 255]) for _ in range(rng.choice([1, 2, 4]))]
        return bytes(vs), vs
    if t == 1038:
        o = rng.choice([0, 1])
        return struct.pack('!HH', 0x4000 if o else 0, 0), Paths([(['flags', 'O'], o)])
    if t in (1099, 1101, 1102, 1103):
        if rng.random() < 0.5:
            return bytes([0x30 if t == 1099 else 0xc0, w, 0, 0]) + _u24(lab), Paths([(['weight'], w), (['value'], lab)])
        return bytes([0, w, 0, 0]) + struct.pack('!I', idx), Paths([(['weight'], w), (['value'], idx)])
    if t == 1100:
        nid = bytes(rng.getrandbits(8) for _ in range(6 if isis else 4))
        return bytes([0x30, w, 0, 0]) + nid + _u24(lab), Paths([(['weight'], w), (['value'], lab)])
    if t == 1106:
        return struct.pack('!HBBBB', beh, rng.choice([0, 0x80, 0xe0]), alg, w, 0) + refenc.ip_bytes(sid6), Paths(
            [(['endpoint_behavior'], beh), (['algorithm'], alg), (['weight'], w), (['sid'], sid6)])
    if t in (1107, 1108):
        nid = bytes(rng.getrandbits(8) for _ in range(6 if t == 1107 else 4))
        return struct.pack('!HBBBB', beh, rng.choice([0, 0x80, 0xe0]), alg, w, 0) + nid + refenc.ip_bytes(sid6), Paths(
            [(['endpoint_behavior'], beh), (['algorithm'], alg), (['weight'], w), (['sid'], sid6)])
    if t in (1114, 1116, 1117):
        return bytes([rng.choice([0, 0x80]) if t != 1116 else 0]) + _u24(rng.choice([0, 1, 1000, 16777215])), None
    if t == 1115:
        return bytes([rng.choice([0, 0x80])]) + _u24(10) + b'\x00' + _u24(rng.choice([10, 16777215])), None
    if t in (1118, 1119, 1120):
        return struct.pack('!f', rng.choice([0.0, 1e6, 1.25e9])), None
    if t == 1158:
        if rng.random() < 0.5:
            return bytes([0x0c if isis else 0x0c, alg, 0, 0]) + _u24(lab), Paths([(['algorithm'], alg), (['sid'], lab)])
        return bytes([rng.choice([0, 0x40]), alg, 0, 0]) + struct.pack('!I', idx), Paths([(['algorithm'], alg), (['sid'], idx)])
    if t == 1161:
        if rng.random() < 0.5:
            return _u24(lab), Paths([(['value'], lab)])
        return struct.pack('!I', idx), Paths([(['value'], idx)])
    if t == 1162:
        m = rng.choice(gen.U32)
        return bytes([rng.choice([0, 0x80]), alg, 0, 0]) + struct.pack('!I', m), Paths([(['algorithm'], alg), (['metric'], m)])
    if t == 1170:
        return bytes([rng.choice([0, 0x80, 0x40, 0x20, 0xe0])]), None
    if t == 1171:
        a = gen.ipv4(rng) if rng.random() < 0.5 else gen.ipv6(rng, rng.choice(['doc', 'll', 'small']))
        return refenc.ip_bytes(a), a
    if t == 1173:
        return b''.join(struct.pack('!I', rng.choice(gen.U32)) for _ in range(rng.choice([1, 2, 8]))), None
    if t == 1250:
        return struct.pack('!HBB', beh, 0, alg), Paths([(['endpoint_behavior'], beh), (['algorithm'], alg)])
    if t == 1251:
        return bytes([rng.choice([0, 0x80, 0xe0]), w, 0, 0]) + struct.pack('!II', rng.choice([65001, 4200000000]), rng.choice(gen.U32)), Paths([(['weight'], w)])
    if t == 1252:
        ls_ = [rng.choice([0, 16, 32, 40, 48]) for _ in range(4)]
        return bytes(ls_), Paths([([k], v) for k, v in zip(('locator_block_length', 'locator_node_length', 'function_length', 'argument_length'), ls_)])
    raise KeyError(t)


LS_SR_TYPES = [258, 266, 267, 1034, 1035, 1036, 1038, 1050, 1099, 1100, 1101, 1102, 1103, 1106, 1107, 1108, 1114, 1115, 1116, 1117, 1118,
               1119, 1120, 1158, 1161, 1162, 1170, 1171, 1173, 1250, 1251, 1252]


def ls_tlv(rng, t, proto=2):
    """(body, encoded value or None) of one well-formed attribute TLV of type t"""
    if t in LS_SR_TYPES:
        return ls_tlv_sr(rng, t, proto)
    if t in (1028, 1030):
        a = gen.ipv4(rng)
        return refenc.ip_bytes(a), a
    if t in (1029, 1031):
        a = gen.ipv6(rng, rng.choice(['doc', 'll', 'small', 'rand']))
        return refenc.ip_bytes(a), a
    if t == 1156:
        a = gen.ipv4(rng) if rng.random() < 0.5 else gen.ipv6(rng, rng.choice(['doc', 'll', 'small']))
        return refenc.ip_bytes(a), a
    if t in (1026, 1098):
        n = rng.choice([1, 2, 7, 32, 45, 46, 64, 255])
        name = ''.join(rng.choice('abcdefghijklmnopqrstuvwxyzABCXYZ0123456789-_./') for _ in range(n))
        return name.encode('ascii'), name
    if t in (1088, 1092, 1155):
        v = rng.choice(gen.U32)
        return struct.pack('!I', v), v
    if t in (1089, 1090):
        v = _f32(rng.choice([0.0, 1.0, 1.25e8, 1e9, 1.25e10, 3.4e38, rng.random() * 1e9]))
        return struct.pack('!f', v), v
    if t == 1091:
        vs = [_f32(rng.choice([0.0, 1.25e8, 1e9, rng.random() * 1e9])) for _ in range(8)]
        return b''.join(struct.pack('!f', v) for v in vs), vs
    if t == 1093:
        b = rng.choice(sorted(LS_PROTECTION))
        return bytes([b, 0]), LS_PROTECTION[b]
    if t == 1095:
        n = rng.choice([1, 2, 3])
        v = rng.choice([0, 1, 10, 63]) if n == 1 else rng.choice([0, 10, 255, 256, (1 << (8 * n)) - 1])
        return v.to_bytes(n, 'big'), v
    if t in (1096, 1153):
        vs = [rng.choice(gen.U32) for _ in range(rng.choice([1, 2, 5]))]
        return b''.join(struct.pack('!I', v) for v in vs), vs
    if t == 1154:
        vs = [rng.choice([0, 1, (1 << 63), (1 << 64) - 1]) for _ in range(rng.choice([1, 2, 3]))]
        return b''.join(struct.pack('!Q', v) for v in vs), vs
    if t == 1027:
        b = bytes([0x49] + [rng.getrandbits(8) for _ in range(rng.choice([0, 2, 6, 12]))])
        return b, b.hex()
    if t == 1024:
        b = rng.choice([0, 0x80, 0x40, 0x20, 0x10, 0x08, 0x04, 0xfc])
        return bytes([b]), {n: (b >> (7 - i)) & 1 for i, n in enumerate('OTEBRV')}
    if t == 1094:
        b = rng.choice([0, 0x80, 0x40, 0xc0])
        return bytes([b]), {'L': b >> 7, 'R': (b >> 6) & 1}
    if t == 1152:
        b = rng.choice([0, 0x80, 0x40, 0x20, 0x10, 0xf0])
        return bytes([b]), {n: (b >> (7 - i)) & 1 for i, n in enumerate('DNLP')}
    if t in (1025, 1097, 1157):
        return bytes(rng.getrandbits(8) for _ in range(rng.choice([0, 1, 9, 40]))), None
    raise KeyError(t)


LS_TYPES = [1024, 1025, 1026, 1027, 1028, 1029, 1030, 1031, 1088, 1089, 1090, 1091, 1092, 1093, 1094, 1095, 1096, 1097, 1098,
            1152, 1153, 1154, 1155, 1156, 1157]


def ls_update(rng, tlvs, proto=None):
    """An UPDATE announcing one BGP-LS node NLRI (RFC 7752 3.2) with the given attribute TLVs in attribute 29"""
    def tlv(t, b):
        return struct.pack('!HH', t, len(b)) + b
    node = tlv(256, tlv(512, struct.pack('!I', rng.choice([65001, 4200000000]))) + tlv(513, struct.pack('!I', rng.choice([0, 1]))) +
               tlv(515, bytes(rng.getrandbits(8) for _ in range(6))))
    proto = proto or rng.choice([2, 2, 1, 3])
    nlri = struct.pack('!HH', 1, len(node) + 9) + bytes([proto]) + struct.pack('!Q', rng.choice([0, 1])) + node
    mp = struct.pack('!HBB', 16388, 71, 4) + refenc.ip_bytes('10.0.0.1') + b'\x00' + nlri
    ls = b''.join(tlv(t, b) for t, b in tlvs)
    first = [refenc.attr(1, b'\x00'), refenc.attr(2, b''), refenc.attr(5, struct.pack('!I', 100))]
    tail = [refenc.attr(14, mp), refenc.attr(29, ls)]
    at = b''.join(first + tail)
    return struct.pack('!H', 0) + struct.pack('!H', len(at)) + at


class Addr(str):
    """an address or prefix compared as a value (family and bits), whatever text form the decoder prints"""


def _same_addr(got, want):
    try:
        if '/' in want:
            return ipaddress.ip_network(got, strict=False) == ipaddress.ip_network(want, strict=False)
        return ipaddress.ip_address(got) == ipaddress.ip_address(want)
    except (ValueError, TypeError):
        return False


def ls_nlri(rng):
    """One BGP-LS NLRI (RFC 7752 3.2, RFC 9514 6) from the reference encoder: (octets, protocol id, [(descriptor code, encoded value)])"""
    def tlv(t, b):
        return struct.pack('!HH', t, len(b)) + b
    proto = rng.choice([1, 2, 2, 3, 3, 6])
    isis = proto in (1, 2)

    def node(code):
        asn, lsid = rng.choice([65001, 4200000000, 1]), rng.choice([0, 1, 0x0a000001])
        b = tlv(512, struct.pack('!I', asn)) + tlv(513, struct.pack('!I', lsid))
        if not isis:
            b += tlv(514, struct.pack('!I', rng.choice([0, 1, 0x0a000000])))
        rid = bytes(rng.getrandbits(8) for _ in range(rng.choice([6, 7]) if isis else rng.choice([4, 8])))
        return tlv(code, b + tlv(515, rid)), Paths([(['as_num'], asn), (['bgpls_id'], Addr(str(ipaddress.IPv4Address(lsid))))])
    kind = rng.choice(['node', 'link', 'link', 'prefix4', 'prefix6', 'prefix6', 'srv6sid'])
    descs = []
    b, want = node(256)
    body = b
    descs.append((256, want))
    if kind == 'link':
        b, want = node(257)
        body += b
        descs.append((257, want))
        form = rng.choice(['v4', 'v6', 'ids', 'v6'])
        if form == 'ids':
            a_, b_ = rng.choice(gen.U32), rng.choice(gen.U32)
            body += tlv(258, struct.pack('!II', a_, b_))
            descs.append((258, Paths([(['local_identifier'], a_), (['remote_identifier'], b_)])))
        elif form == 'v4':
            for code in (259, 260):
                a_ = gen.ipv4(rng)
                body += tlv(code, refenc.ip_bytes(a_))
                descs.append((code, Addr(a_)))
        else:
            for code in (261, 262):
                a_ = gen.ipv6(rng, rng.choice(['doc', 'll', 'small', 'rand']))
                body += tlv(code, refenc.ip_bytes(a_))
                descs.append((code, Addr(a_)))
        if rng.random() < 0.3:
            mts = [rng.choice([0, 2, 4095]) for _ in range(rng.choice([1, 2]))]
            body += tlv(263, b''.join(struct.pack('!H', m) for m in mts))
            descs.append((263, mts))
        ntype = 2
    elif kind in ('prefix4', 'prefix6'):
        if rng.random() < 0.3:
            mts = [rng.choice([0, 2, 4095])]
            body += tlv(263, struct.pack('!H', mts[0]))
            descs.append((263, mts))
        if not isis:
            rt = rng.choice([1, 2, 3, 4, 5, 6])
            body += tlv(264, bytes([rt]))
            descs.append((264, rt))
        if kind == 'prefix4':
            p_ = gen.prefix4(rng, rng.choice([None, 0, 1, 8, 24, 31, 32]))
            body += tlv(265, refenc.prefix4_bytes(p_))
        else:
            p_ = gen.prefix6(rng, rng.choice([None, 0, 0, 1, 8, 32, 64, 127, 128]), rng.choice(['zero', 'rand', 'rand', 'ones']))
            body += tlv(265, refenc.prefix6_bytes(p_))
        descs.append((265, Addr(p_)))
        ntype = 3 if kind == 'prefix4' else 4
    elif kind == 'srv6sid':
        a_ = gen.ipv6(rng, rng.choice(['doc', 'rand', 'small']))
        body += tlv(518, refenc.ip_bytes(a_))
        descs.append((518, Addr(a_)))
        ntype = 6
    else:
        ntype = 1
    ident = rng.choice([0, 1, (1 << 64) - 1])
    return struct.pack('!HH', ntype, len(body) + 9) + bytes([proto]) + struct.pack('!Q', ident) + body, proto, ident, descs


def _ls_alone_fails(Update, rng, t, b, proto):
    try:
        r = Update.parse(None, ls_update(rng, [(t, b)], proto), True)
        return bool(r['sub_error']) or not (r['attr'] or {}).get(29)
    except Exception:
        return True


def run_shard(sh):
    res = dict(evaluations=0, counters={}, maxima={}, sets={}, distinct=[], samples=[], violations=[])
    V = {}

    def bad(kind, feats, detail, replay):
        V.setdefault((kind, tuple(sorted(feats))), dict(kind=kind, features=sorted(feats), detail=detail, replay=replay))

    if sh.get('kind') == 'protocol':
        return run_protocol(sh, res)
    from yabgp.message.update import Update
    rng = random.Random(sh['seed'])
    vcount = {}
    if sh['part'] == 0:
        ok, fail = calibrate()
        res['sets']['reference_encoder_reproduces_test_vectors'] = ['%s x%d' % kv for kv in sorted(ok.items())]
        res['sets']['reference_encoder_differs_from_test_vectors'] = ['%s: test %s ref %s' % (k, a, b) for k, (a, b) in sorted(fail.items())]
        res['counters']['calibration_vectors_reproduced'] = sum(ok.values())
    # ------------------------------------------------------------ good half
    for i in range(sh['n']):
        asn4, attrs, nlri, wdl, variants = make_case(rng)
        body, path_ids = encode(asn4, attrs, nlri, wdl, variants, rng)
        if len(body) > 4077:
            continue
        res['evaluations'] += 1
        for k, v in variants.items():
            if v:
                vcount[k] = vcount.get(k, 0) + 1
        aap = {'ipv4': True} if variants['addpath'] else None
        rep = dict(body=body.hex(), asn4=asn4, addpath=bool(variants['addpath']))
        feats = vfeatures(attrs, nlri, wdl, variants)
        try:
            r = Update.parse(None, body, asn4, aap)
        except Exception as e:
            bad('reference-decode-raised', feats, 'Update.parse raised %r on a reference encoding of %s' % (e, json.dumps(gen.norm(attrs))[:300]), rep)
            continue
        if r['sub_error']:
            codes = sorted(attrs)
            bad('reference-decode-error', feats + ['attrs:' + ','.join(str(c) for c in codes if c in (14, 15, 17, 18))],
                'sub_error %r on a well-formed reference encoding (variants %s) of %s' % (r['sub_error'], variants, json.dumps(gen.norm(attrs))[:300]), rep)
            continue
        want_attr = expected(attrs)
        got_attr = gen.norm(r['attr'] or {})
        if variants['addpath']:
            want_nlri = [{'prefix': p, 'path_id': i_} for p, i_ in zip(nlri, path_ids[0])]
            want_wd = [{'prefix': p, 'path_id': i_} for p, i_ in zip(wdl, path_ids[1])]
        else:
            want_nlri, want_wd = nlri, wdl
        if got_attr != want_attr:
            keys = [k for k in sorted(set(got_attr) | set(want_attr), key=int) if got_attr.get(k) != want_attr.get(k)]
            bad('reference-decode-differs', feats + ['attr:' + k for k in keys], 'attributes %s: encoded %s decoded %s (variants %s)' % (
                keys, json.dumps({k: want_attr.get(k) for k in keys})[:300], json.dumps({k: got_attr.get(k) for k in keys})[:300], variants), rep)
        if gen.norm(r['nlri']) != gen.norm(want_nlri) or gen.norm(r['withdraw']) != gen.norm(want_wd):
            bad('reference-decode-differs', feats + ['prefixes'], 'prefix lists: encoded %s / %s decoded %s / %s (variants %s)' % (
                json.dumps(want_nlri)[:200], json.dumps(want_wd)[:100], json.dumps(gen.norm(r['nlri']))[:200], json.dumps(gen.norm(r['withdraw']))[:100], variants), rep)
    # ------------------------------------------------------------ add-path identifiers inside MP_REACH / MP_UNREACH (codec level)
    AP_FAMS = {'ipv6': 'ipv6', 'ipv4_lu': 'ipv4_lu', 'ipv6_lu': 'ipv6_lu', 'vpnv4': 'vpnv4', 'vpnv6': 'vpnv6', 'ipv4-mp': 'ipv4'}
    nap = 0
    for i in range(sh['n'] // 6):
        fam = rng.choice(sorted(AP_FAMS))
        wd = rng.random() < 0.3 and fam not in ('ipv4_lu', 'ipv6_lu')
        key = 'withdraw' if wd else 'nlri'
        if fam == 'ipv4-mp':
            v = {'afi_safi': [1, 1], key: gen.prefix_list4(rng, 6) or ['192.0.2.0/24']}
            if not wd:
                v['nexthop'] = gen.ipv4(rng, 'rand')
        else:
            v = gen.mp_value(rng, fam, withdraw=wd, nmax=5)
        routes = v[key]
        if fam == 'ipv6':
            routes = [r for j, r in enumerate(routes) if r != '::/0' or j == 0]
        pids = [rng.choice([0, 0, 1, 255, 65536, 4294967295, rng.getrandbits(32)]) for _ in routes]
        afs = tuple(v['afi_safi'])
        head = refenc.mp_unreach_value(dict(v, withdraw=[])) if wd else refenc.mp_reach_value(dict(v, nlri=[]))
        val = head + b''.join(struct.pack('!I', pid) + refenc.family_nlri_bytes(afs, [r], wd) for pid, r in zip(pids, routes))
        at = refenc.attr(1, b'\x00') + refenc.attr(2, b'') + refenc.attr(15 if wd else 14, val)
        body = struct.pack('!H', 0) + struct.pack('!H', len(at)) + at
        if len(body) > 4077:
            continue
        nap += 1
        res['evaluations'] += 1
        rep = dict(body=body.hex(), asn4=True, addpath_family=AP_FAMS[fam])
        feats = ['variant:addpath-mp', 'family:' + fam] + (['path-id-0'] if 0 in pids else [])
        try:
            r = Update.parse(None, body, True, {AP_FAMS[fam]: True})
        except Exception as e:
            bad('reference-decode-raised', feats, 'Update.parse raised %r on add-path %s routes %s' % (e, fam, json.dumps(gen.norm(routes))[:200]), rep)
            continue
        want = dict(v)
        want[key] = [dict(r, path_id=pid) if isinstance(r, dict) else {'prefix': r, 'path_id': pid} for pid, r in zip(pids, routes)]
        want_attr = expected({1: 0, 2: [], (15 if wd else 14): want})
        got_attr = gen.norm(r['attr'] or {})
        if r['sub_error'] or got_attr != want_attr:
            k = '15' if wd else '14'
            bad('reference-decode-differs', feats, 'add-path %s: encoded %s decoded %s (sub_error %s)' % (
                fam, json.dumps(want_attr.get(k))[:300], json.dumps(got_attr.get(k))[:300], r['sub_error']), rep)
    vcount['addpath_mp'] = nap
    # ------------------------------------------------------------ flowspec rules around the 240-octet boundary of the NLRI length form
    nfs = 0
    for n in [100, 110, 115, 116, 117, 118, 119, 120, 121, 122, 123, 124, 125, 126, 130, 200, 400] if sh['part'] < 4 else []:
        terms = [rng.choice([1, 6, 17, 80, 255]) for _ in range(n)]
        rule = {1: gen.prefix4(rng, 24, 'rand'), 5: '|'.join('=%d' % t for t in terms)}
        v = {'afi_safi': [1, 133], 'nexthop': '', 'nlri': [rule, {1: '192.0.2.0/24'}]}
        for code in (14, 15):
            vv = dict(v) if code == 14 else {'afi_safi': [1, 133], 'withdraw': v['nlri']}
            val = refenc.mp_reach_value(vv) if code == 14 else refenc.mp_unreach_value(vv)
            at = refenc.attr(1, b'\x00') + refenc.attr(2, b'') + refenc.attr(code, val)
            body = struct.pack('!H', 0) + struct.pack('!H', len(at)) + at
            nfs += 1
            res['evaluations'] += 1
            rep = dict(body=body.hex(), asn4=True)
            rl = len(refenc.flowspec_rule_bytes(rule))
            feats = ['variant:flowspec-long-rule', 'attr:%d' % code, 'length-form:%d-octet' % (1 if rl < 241 else 2)]
            try:
                r = Update.parse(None, body, True)
            except Exception as e:
                bad('reference-decode-raised', feats, 'Update.parse raised %r on a flowspec rule of %d octets' % (e, rl), rep)
                continue
            want_attr = expected({1: 0, 2: [], code: vv})
            got_attr = gen.norm(r['attr'] or {})
            if r['sub_error'] or got_attr != want_attr:
                bad('reference-decode-differs', feats, 'flowspec rule of %d octets (with its length field): encoded %s decoded %s (sub_error %s)' % (
                    rl, json.dumps(want_attr.get(str(code)))[:200], json.dumps(got_attr.get(str(code)))[:200], r['sub_error']), rep)
    vcount['flowspec_long_rules'] = nfs
    # ------------------------------------------------------------ BGP-LS attribute TLVs (RFC 7752 3.3): every standard node / link /
    # prefix attribute TLV alone, and 2..6 of them in one attribute
    nls = 0
    ls_all = LS_TYPES + LS_SR_TYPES
    ls_cases = [[t] for t in ls_all for _ in range(6)] + [[rng.choice(ls_all) for _ in range(rng.randint(2, 6))] for _ in range(sh['n'] // 200)]
    for types in ls_cases if sh['part'] % 2 == 0 else []:
        proto = rng.choice([2, 2, 1, 3])
        # the LAN End.X SID TLV has an IS-IS (1107) and an OSPFv3 (1108) form
        types = [(1107 if proto in (1, 2) else 1108) if t in (1107, 1108) else t for t in types]
        made = [(t,) + ls_tlv(rng, t, proto) for t in types]
        body = ls_update(rng, [(t, b) for t, b, _ in made], proto)
        nls += 1
        res['evaluations'] += 1
        rep = dict(body=body.hex(), asn4=True)
        feats = ['variant:bgp-ls-attribute'] + (['tlv:%d' % types[0]] if len(types) == 1 else ['several-tlvs'])
        try:
            r = Update.parse(None, body, True)
        except Exception as e:
            bad('reference-decode-raised', feats, 'Update.parse raised %r on a BGP-LS attribute with TLVs %s' % (e, types), rep)
            continue
        got = (r['attr'] or {}).get(29)
        if r['sub_error'] or not isinstance(got, list) or len(got) != len(made):
            broken = [t for t, b, _ in made if _ls_alone_fails(Update, rng, t, b, proto)]
            bad('reference-decode-error', ['variant:bgp-ls-attribute'] + ['tlv:%d' % t for t in sorted(set(broken))[:2]],
                'sub_error %r, attribute 29 = %s on a well-formed BGP-LS attribute with TLVs %s' % (
                    r['sub_error'], json.dumps(gen.norm(got))[:200], [(t, b.hex()[:24]) for t, b, _ in made]), rep)
            continue
        for (t, b, want), ent in zip(made, got):
            if want is None:
                continue
            gv = ent.get('value') if isinstance(ent, dict) else None
            if isinstance(want, Paths):
                # named fields: judged where the decoder prints a field of that name
                for path, wv in want:
                    cur = gv
                    for k in path:
                        cur = cur.get(k, KeyError) if isinstance(cur, dict) else KeyError
                    if cur is not KeyError and gen.norm(cur) != gen.norm(wv):
                        bad('reference-decode-differs', ['variant:bgp-ls-attribute', 'tlv:%d' % t, 'field:' + '.'.join(path)],
                            'BGP-LS attribute TLV %d with body %s encodes %s = %s, decoded as %s' % (t, b.hex()[:60], '.'.join(path), wv, json.dumps(gen.norm(ent))[:200]), rep)
                continue
            if gen.norm(gv) != gen.norm(want):
                bad('reference-decode-differs', ['variant:bgp-ls-attribute', 'tlv:%d' % t], 'BGP-LS attribute TLV %d with body %s encodes %s, decoded as %s' % (
                    t, b.hex()[:60], json.dumps(gen.norm(want))[:120], json.dumps(gen.norm(ent))[:160]), rep)
    vcount['bgp_ls_attribute'] = nls
    # ------------------------------------------------------------ BGP-LS NLRIs (node, link, IPv4 / IPv6 prefix, SRv6 SID) with their descriptors
    nln = 0
    for _ in range(sh['n'] // 40 if sh['part'] % 2 == 1 else 0):
        made = [ls_nlri(rng) for _ in range(rng.choice([1, 1, 2, 4]))]
        wd = rng.random() < 0.25
        if wd:
            val = struct.pack('!HB', 16388, 71) + b''.join(m[0] for m in made)
        else:
            val = struct.pack('!HBB', 16388, 71, 4) + refenc.ip_bytes('10.0.0.1') + b'\x00' + b''.join(m[0] for m in made)
        at = (b'' if wd else refenc.attr(1, b'\x00') + refenc.attr(2, b'') + refenc.attr(5, struct.pack('!I', 100))) + refenc.attr(15 if wd else 14, val)
        body = struct.pack('!H', 0) + struct.pack('!H', len(at)) + at
        nln += 1
        res['evaluations'] += 1
        rep = dict(body=body.hex(), asn4=True)
        feats = ['variant:bgp-ls-nlri', 'attr:%d' % (15 if wd else 14)]
        try:
            r = Update.parse(None, body, True)
        except Exception as e:
            bad('reference-decode-raised', feats, 'Update.parse raised %r on BGP-LS NLRIs' % (e,), rep)
            continue
        got = ((r['attr'] or {}).get(15 if wd else 14) or {})
        got = got.get('withdraw' if wd else 'nlri') if isinstance(got, dict) else None
        if r['sub_error'] or not isinstance(got, list) or len(got) != len(made):
            bad('reference-decode-error', feats, 'sub_error %r, decoded %s for %d well-formed BGP-LS NLRI(s)' % (r['sub_error'], json.dumps(gen.norm(got))[:300], len(made)), rep)
            continue
        for (_, proto, ident, descs), ent in zip(made, got):
            dl = ent.get('descriptors') if isinstance(ent, dict) else None
            if ent.get('protocol_id', proto) != proto or not isinstance(dl, list) or len(dl) != len(descs):
                bad('reference-decode-differs', feats + ['descriptor-count'], 'NLRI with protocol %d and descriptors %s decoded as %s' % (
                    proto, [c for c, _ in descs], json.dumps(gen.norm(ent))[:300]), rep)
                continue
            for (code, want), d in zip(descs, dl):
                gv = d.get('value') if isinstance(d, dict) else None
                if isinstance(want, Paths):
                    pairs = [(gv.get(pth[0], KeyError) if isinstance(gv, dict) else KeyError, wv) for pth, wv in want]
                else:
                    pairs = [(gv, want)]
                for g_, w_ in pairs:
                    if g_ is KeyError:
                        continue
                    same = _same_addr(g_, w_) if isinstance(w_, Addr) else gen.norm(g_) == gen.norm(w_)
                    if not same:
                        bad('reference-decode-differs', feats + ['descriptor:%d' % code] + (['ipv6-below-2^32'] if isinstance(w_, Addr) and ':' in w_ and
                                                                                             int(ipaddress.ip_network(w_, strict=False).network_address if '/' in w_ else ipaddress.ip_address(w_)) < (1 << 32) else []),
                            'descriptor %d encodes %s, decoded as %s' % (code, w_, json.dumps(gen.norm(d))[:200]), rep)
    vcount['bgp_ls_nlri'] = nln
    # ------------------------------------------------------------ PMSI tunnel (RFC 6514 5) and BGP Prefix-SID (RFC 8669 3, RFC 9252 2) attributes
    npm = 0
    for _ in range(sh['n'] // 40 if sh['part'] % 4 == 1 else 0):
        std = refenc.attr(1, b'\x00') + refenc.attr(2, b'') + refenc.attr(3, refenc.ip_bytes('10.0.0.1'))
        if rng.random() < 0.5:
            ttype = rng.choice([6, 6, 6, 0, 1, 2, 3, 4, 5, 7])
            leaf, lab = rng.choice([0, 0, 1]), rng.choice([0, 16, 1000, 1048575])
            tid, tb = None, b''
            if ttype == 6:
                tid = gen.ipv4(rng) if rng.random() < 0.6 else gen.ipv6(rng, rng.choice(['doc', 'll', 'small']))
                tb = refenc.ip_bytes(tid)
            elif ttype == 1:
                tb = struct.pack('!IHH', rng.choice(gen.U32), 0, rng.choice(gen.U16)) + refenc.ip_bytes(gen.ipv4(rng))
            elif ttype in (2, 7):
                tb = bytes([6, 0, 1, 4]) + refenc.ip_bytes(gen.ipv4(rng)) + bytes([0, 7, 1, 0, 4]) + struct.pack('!I', rng.choice(gen.U32))
            elif ttype in (3, 4, 5):
                tb = refenc.ip_bytes(gen.ipv4(rng)) + refenc.ip_bytes('232.1.1.%d' % rng.randint(1, 254))
            at = std + refenc.attr(22, bytes([leaf, ttype]) + (lab << 4).to_bytes(3, 'big') + tb)
            code, want = 22, Paths([(['leaf_info_required'], leaf), (['tunnel_type'], ttype), (['mpls_label'], [lab])] + ([(['tunnel_id'], Addr(tid))] if tid else []))
            feats = ['variant:pmsi-tunnel', 'tunnel-type:%d' % ttype]
        else:
            sid = gen.ipv6(rng, rng.choice(['doc', 'doc', 'rand', 'small']))
            beh, fl = rng.choice([17, 18, 19, 20, 65535]), rng.choice([0, 0x80, 0xff])
            struct_ = [rng.choice([0, 16, 32, 40, 48, 64]) for _ in range(6)]
            subsub = (struct.pack('!BH', 1, 6) + bytes(struct_)) if rng.random() < 0.7 else b''
            info = bytes([0]) + refenc.ip_bytes(sid) + bytes([fl]) + struct.pack('!H', beh) + bytes([0]) + subsub
            l3 = bytes([0]) + struct.pack('!BH', 1, len(info)) + info
            tl = struct.pack('!BH', 5, len(l3)) + l3
            extra = b''
            if rng.random() < 0.4:
                extra = struct.pack('!BH', 1, 7) + bytes([0]) + struct.pack('!HI', 0, rng.choice(gen.U32))       # RFC 8669 Label-Index TLV
            order = [extra, tl] if rng.random() < 0.5 else [tl, extra]
            at = std + refenc.attr(40, b''.join(order))
            code, want, feats = 40, None, ['variant:prefix-sid-srv6'] + (['ipv6-below-2^32'] if int(ipaddress.ip_address(sid)) < (1 << 32) else [])
        body = struct.pack('!H', 0) + struct.pack('!H', len(at)) + at + refenc.prefix_list4(['192.0.2.0/24'])
        npm += 1
        res['evaluations'] += 1
        rep = dict(body=body.hex(), asn4=True)
        try:
            r = Update.parse(None, body, True)
        except Exception as e:
            bad('reference-decode-raised', feats, 'Update.parse raised %r' % (e,), rep)
            continue
        gv = (r['attr'] or {}).get(code)
        if r['sub_error'] or gv is None:
            bad('reference-decode-error', feats, 'sub_error %r, attribute %d = %s on a well-formed encoding' % (r['sub_error'], code, json.dumps(gen.norm(gv))[:200]), rep)
            continue
        if code == 22:
            for pth, wv in want:
                g_ = gv.get(pth[0], KeyError) if isinstance(gv, dict) else KeyError
                if g_ is KeyError:
                    continue
                if not (_same_addr(g_, wv) if isinstance(wv, Addr) else gen.norm(g_) == gen.norm(wv)):
                    bad('reference-decode-differs', feats + ['field:' + pth[0]], 'PMSI tunnel attribute encodes %s = %s, decoded as %s' % (pth[0], wv, json.dumps(gen.norm(gv))[:200]), rep)
        else:
            # the SRv6 L3 service TLV: SID, flags, behaviour and structure must come back wherever the decoder puts them
            flat = json.dumps(gen.norm(gv))
            n_ent = len(gv) if isinstance(gv, list) else -1
            if n_ent != (2 if extra else 1):
                bad('reference-decode-differs', feats + ['tlv-count'], 'Prefix-SID attribute with %d TLV(s) decoded as %s' % (2 if extra else 1, flat[:300]), rep)
                continue
            leaves = []

            def walk_(o):
                if isinstance(o, dict):
                    for v_ in o.values():
                        walk_(v_)
                elif isinstance(o, list):
                    for v_ in o:
                        walk_(v_)
                else:
                    leaves.append(o)
            walk_(gv)
            if not any(isinstance(x, str) and _same_addr(x, sid) for x in leaves):
                bad('reference-decode-differs', feats + ['field:sid'], 'SRv6 SID %s not found in the decoded Prefix-SID attribute %s' % (sid, flat[:300]), rep)
            if beh not in leaves:
                bad('reference-decode-differs', feats + ['field:behavior'], 'endpoint behaviour %d not found in the decoded Prefix-SID attribute %s' % (beh, flat[:300]), rep)
    vcount['pmsi_prefix_sid'] = npm
    # ------------------------------------------------------------ End-of-RIB markers (RFC 4724): MP_UNREACH_NLRI with a family and no route
    neor = 0
    for afs in ([2, 1], [1, 4], [2, 4], [1, 128], [2, 128], [25, 70], [1, 133], [1, 1]) if sh['part'] < 4 else []:
        for asn4 in (True, False):
            at = refenc.attr(15, struct.pack('!HB', afs[0], afs[1]))
            body = struct.pack('!H', 0) + struct.pack('!H', len(at)) + at
            neor += 1
            res['evaluations'] += 1
            rep_ = dict(body=body.hex(), asn4=asn4)
            try:
                r = Update.parse(None, body, asn4)
            except Exception as e:
                bad('reference-decode-raised', ['variant:end-of-rib'], 'Update.parse raised %r on the End-of-RIB marker of family %s' % (e, afs), rep_)
                continue
            got = gen.norm((r['attr'] or {}).get(15))
            if r['sub_error'] or not got or got.get('afi_safi') != afs or got.get('withdraw') not in ([], None, '', "b''"):
                bad('reference-decode-differs', ['variant:end-of-rib', 'family:%d/%d' % tuple(afs)],
                    'End-of-RIB marker of family %s decoded to %s (sub_error %s)' % (afs, json.dumps(got)[:200], r['sub_error']), rep_)
    # the IPv4 unicast End-of-RIB marker is the UPDATE that carries nothing at all (RFC 4724 2): it decodes to empty lists and an
    # empty attribute dictionary like any other UPDATE without attributes, with no error
    for asn4 in (True, False) if sh['part'] < 4 else []:
        body = b'\x00\x00\x00\x00'
        neor += 1
        res['evaluations'] += 1
        try:
            r = Update.parse(None, body, asn4)
            got = (r.get('sub_error'), gen.norm(r.get('attr')), gen.norm(r.get('nlri')), gen.norm(r.get('withdraw')))
        except Exception as e:
            got = ('raised %r' % (e,),)
        if got != (None, {}, [], []):
            bad('reference-decode-differs', ['variant:end-of-rib', 'family:ipv4-empty-update'],
                'the empty UPDATE (IPv4 End-of-RIB) decoded to (sub_error, attr, nlri, withdraw) = %s' % (json.dumps(got)[:200],), dict(body=body.hex(), asn4=asn4))
    vcount['end_of_rib_markers'] = neor
    # ------------------------------------------------------------ error half
    nerr = 0
    base = {1: 0, 2: [[2, [65001]]], 3: '10.0.0.1'}
    for asn4 in (True, False):
        cases = []
        for v in range(3, 256):
            cases.append(('origin-value', refenc.attr(1, bytes([v])) + refenc.attributes({2: base[2], 3: base[3]}, asn4), b'\x18\xc0\x00\x02', b''))
        for bits in list(range(33, 256)):
            cases.append(('nlri-prefix-length', refenc.attributes(base, asn4), bytes([bits]) + b'\xc0\x00\x02\x00' + b'\x00' * ((bits + 7) // 8), b''))
            cases.append(('withdrawn-prefix-length', b'', b'', bytes([bits]) + b'\x00' * ((bits + 7) // 8)))
            # the same inside MP_REACH_NLRI / MP_UNREACH_NLRI of the IPv4 unicast family
            pfx = bytes([bits]) + b'\xc0\x00\x02\x00' + b'\x00' * max(0, (bits + 7) // 8 - 4)
            cases.append(('mp-reach-prefix-length', refenc.attributes(base, asn4) + refenc.attr(14, struct.pack('!HBB', 1, 1, 4) + b'\x0a\x00\x00\x01\x00' + pfx), b'', b''))
            cases.append(('mp-unreach-prefix-length', refenc.attr(15, struct.pack('!HB', 1, 1) + pfx), b'', b''))
        for st in [0] + list(range(5, 256)):
            seg = bytes([st, 1]) + struct.pack('!I' if asn4 else '!H', 65001)
            cases.append(('aspath-segment-type', refenc.attr(1, b'\x00') + refenc.attr(2, seg) + refenc.attr(3, b'\x0a\x00\x00\x01'), b'\x18\xc0\x00\x02', b''))
        for code, good in FIXED.items():
            goods = (good,) if good is not None else ((8,) if asn4 else (6,))
            for ln in range(0, 9):
                if ln in goods:
                    continue
                others = {k: v for k, v in base.items() if k != code}
                cases.append(('fixed-length:%d:len%d' % (code, ln), refenc.attributes(others, asn4) + refenc.attr(code, b'\x01' * ln), b'\x18\xc0\x00\x02', b''))
        for name, at, nl, wd in cases:
            if (hash(name) + nerr) % 16 != sh['part'] and False:
                continue
            body = struct.pack('!H', len(wd)) + wd + struct.pack('!H', len(at)) + at + nl
            nerr += 1
            res['evaluations'] += 1
            try:
                r = Update.parse(None, body, asn4)
            except Exception as e:
                bad('corruption-raised', ['corruption:' + name.split(':')[0]], 'Update.parse raised %r on corruption %s' % (e, name), dict(body=body.hex(), asn4=asn4))
                continue
            if not r['sub_error']:
                bad('corruption-not-flagged', ['corruption:' + ':'.join(name.split(':')[:2])] + ([name.split(':')[2]] if name.count(':') == 2 else []),
                    'corruption %s decoded without an error: attr %s nlri %s' % (name, json.dumps(gen.norm(r['attr']))[:200], r['nlri'][:3]), dict(body=body.hex(), asn4=asn4))
    res['violations'] = list(V.values())
    res['distinct'] = ['%d|%d' % (sh['seed'], i) for i in range(res['evaluations'])]
    res['counters'].update(reference_encodings_decoded=res['evaluations'] - nerr, corruptions_checked=nerr, **{'variant_' + k: v for k, v in vcount.items()})
    res['samples'] = [dict(reference_update=refenc.update(base, ['192.0.2.0/24'], asn4=True, ext=True).hex())]
    return res


def run_protocol(sh, res):
    """reference encodings through BGP.dataReceived: good ones reach handler.update_received with the values, corrupt ones on_update_error"""
    from vlib.world import World
    rng = random.Random(sh['seed'])
    V = {}
    n_good = n_bad = 0
    for i in range(sh['n']):
        asn4, attrs, nlri, wdl, variants = make_case(rng)
        variants['addpath'] = False
        asn4 = True
        attrs.pop(2, None); attrs.pop(7, None); attrs.pop(17, None); attrs.pop(18, None)
        body, _ = encode(asn4, attrs, nlri, wdl, variants, rng)
        if len(body) > 4000:
            continue
        corrupt = i % 4 == 0
        if corrupt:
            body = struct.pack('!H', 0) + struct.pack('!H', 4) + refenc.attr(1, b'\x07') + b'\x18\xc0\x00\x02'
        w = World()
        tr = w.establish()
        n0 = len(w.handler.ev)
        w.deliver(refenc.frame(2, body), tr)
        reps = [e for e in w.handler.ev[n0:] if e[0] in ('update_received', 'on_update_error')]
        res['evaluations'] += 1
        if corrupt:
            n_bad += 1
            if len(reps) != 1 or reps[0][0] != 'on_update_error':
                V.setdefault('p-err', dict(kind='protocol-corruption-not-reported', features=[], detail='corrupt UPDATE reported as %s' % [r[0] for r in reps], replay=dict(body=body.hex(), asn4=True)))
        else:
            n_good += 1
            ok = len(reps) == 1 and reps[0][0] == 'update_received' and gen.norm(reps[0][2]['attr']) == expected(attrs) and \
                gen.norm(reps[0][2]['nlri']) == gen.norm(nlri) and gen.norm(reps[0][2]['withdraw']) == gen.norm(wdl)
            if not ok:
                V.setdefault('p-good', dict(kind='protocol-decode-differs', features=vfeatures(attrs, nlri, wdl, variants), detail='reference UPDATE of %s reported as %s' % (
                    json.dumps(gen.norm(attrs))[:300], str([(r[0], r[2]) for r in reps])[:400]), replay=dict(body=body.hex(), asn4=True)))
    res['counters'] = dict(through_protocol_good=n_good, through_protocol_corrupt=n_bad)
    res['distinct'] = ['proto|%d|%d' % (sh['seed'], i) for i in range(res['evaluations'])]
    res['violations'] = list(V.values())
    return res


def floors(m, tier):
    c = m['counters']
    unmet = []
    for k, n in (('reference_encodings_decoded', 10000), ('corruptions_checked', 5000), ('through_protocol_good', 50), ('calibration_vectors_reproduced', 20),
                 ('variant_ext', 1000), ('variant_dirty', 1000), ('variant_as4', 1000), ('variant_addpath', 500), ('variant_bgp_ls_attribute', 1000), ('variant_bgp_ls_nlri', 1000), ('variant_pmsi_prefix_sid', 500)):
        if c.get(k, 0) < n:
            unmet.append('%s below %d' % (k, n))
    return unmet


def replay(rep):
    from yabgp.message.update import Update
    r = Update.parse(None, bytes.fromhex(rep['body']), rep.get('asn4', True), {'ipv4': True} if rep.get('addpath') else None)
    return [dict(kind='replayed', features=[], detail='sub_error=%r attr=%s' % (r['sub_error'], json.dumps(gen.norm(r['attr']))[:300]))] if False else []
