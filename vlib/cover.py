"""Which yabgp lines did the workloads actually execute?  (development aid, DESIGN.md 12.4)

With VERIF_COVER=<directory> every worker process records the set of (file, line) pairs of yabgp code it executed
(sys.monitoring LINE events under the coverage tool id; each location reports once and is then disabled, so the cost is
one callback per distinct line) and leaves it in <directory>/<pid>.json at exit.  tools_cover.py merges the files and
lists the executable lines no workload reached - the places where a monitor has observed nothing.
"""
import atexit
import json
import os
import sys

TOOL = 1    # sys.monitoring.COVERAGE_ID


def install(outdir, repo):
    mon = sys.monitoring
    root = os.path.join(os.path.realpath(repo), 'yabgp') + os.sep
    seen = set()

    def on_line(code, line):
        fn = code.co_filename
        if fn.startswith(root):
            seen.add((fn[len(root):], line))
        return mon.DISABLE

    started, returned = set(), set()

    def on_start(code, offset):
        if code.co_filename.startswith(root):
            started.add((code.co_filename[len(root):], code.co_firstlineno, code.co_qualname))
        return mon.DISABLE

    def on_return(code, offset, retval):
        if code.co_filename.startswith(root):
            returned.add((code.co_filename[len(root):], code.co_firstlineno, code.co_qualname))
        return mon.DISABLE

    mon.use_tool_id(TOOL, 'verif-cover')
    mon.register_callback(TOOL, mon.events.LINE, on_line)
    mon.register_callback(TOOL, mon.events.PY_START, on_start)
    mon.register_callback(TOOL, mon.events.PY_RETURN, on_return)
    mon.set_events(TOOL, mon.events.LINE | mon.events.PY_START | mon.events.PY_RETURN)

    def dump():
        try:
            os.makedirs(outdir, exist_ok=True)
            with open(os.path.join(outdir, '%d.json' % os.getpid()), 'w') as fh:
                json.dump(dict(lines=sorted(seen), started=sorted(started), returned=sorted(returned)), fh)
        except Exception:
            pass

    atexit.register(dump)
