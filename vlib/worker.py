"""Worker process: runs one shard (or one replay) of a check and writes its JSON result."""
import faulthandler
import importlib
import json
import os
import sys


def main():
    faulthandler.enable()
    sys.setrecursionlimit(3000)
    here = os.path.dirname(os.path.dirname(os.path.abspath(__file__)))
    sys.path.insert(0, here)
    from vlib import env
    env.setup()
    if os.environ.get('VERIF_COVER'):
        from vlib import cover
        cover.install(os.environ['VERIF_COVER'], env.REPO)
    cid = sys.argv[1]
    mod = importlib.import_module('checks.%s' % cid.lower())
    if sys.argv[2] == '--replay':
        with open(sys.argv[3]) as fh:
            rep = json.load(fh)
        vs = mod.replay(rep)
        with open(sys.argv[4], 'w') as fh:
            json.dump({'violations': vs}, fh, default=str)
        return 0
    with open(sys.argv[2]) as fh:
        shard = json.load(fh)
    from vlib import budget
    budget.start(shard.pop('_soft', None))
    res = mod.run_shard(shard)
    if budget.STATE['boxed'] and isinstance(res, dict):
        res.setdefault('counters', {})['time_boxed_shards'] = 1
    with open(sys.argv[3], 'w') as fh:
        json.dump(res, fh, default=str)
    return 0


if __name__ == '__main__':
    sys.exit(main())
