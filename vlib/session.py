"""Event alphabet, event application, fingerprints and the small-scope explorer (DESIGN.md 2.2, 4.1, 4.2)."""
import copy
import random
import struct

from .world import World, frame, peer_open, KEEPALIVE, reactor, CONF, C

# ---------------------------------------------------------------- alphabet
UPD_EMPTY = frame(2, b'\x00\x00\x00\x00')
# one route 192.0.2.0/24 with ORIGIN, AS_PATH (one 4-octet AS 65002), NEXT_HOP
UPD_ROUTE = frame(2, b'\x00\x00' + struct.pack('!H', 4 + 9 + 7) +
                  b'\x40\x01\x01\x00' + b'\x40\x02\x06\x02\x01' + struct.pack('!I', 65002) +
                  b'\x40\x03\x04\x0a\x00\x00\x02' + b'\x18\xc0\x00\x02')
# a well-formed UPDATE whose MP_REACH_NLRI names an address family the agent does not know (AFI 34): still an UPDATE
UPD_UNKFAM = frame(2, bytes.fromhex('0000003e800e260022011000000000000000000000ffffac1f22aa008020010000000000000000000000000001'
                                    '400101004002008004040000000040050400000064'))
# ... and one that is reported as malformed (ORIGIN value 7) but tolerated
UPD_MALFORMED = frame(2, b'\x00\x00\x00\x04\x40\x01\x01\x07')
MSGS = {
    'OPEN': (peer_open(), dict(kind='OPEN', ver=4, asn=65002, hold=90)),
    'OPEN_h0': (peer_open(hold=0), dict(kind='OPEN', ver=4, asn=65002, hold=0)),
    'OPEN_h1': (peer_open(hold=1), dict(kind='OPEN', ver=4, asn=65002, hold=1)),
    'OPEN_h2': (peer_open(hold=2), dict(kind='OPEN', ver=4, asn=65002, hold=2)),
    'OPEN_h9': (peer_open(hold=9), dict(kind='OPEN', ver=4, asn=65002, hold=9)),
    'OPEN_h65535': (peer_open(hold=65535), dict(kind='OPEN', ver=4, asn=65002, hold=65535)),
    'OPEN_badver': (peer_open(ver=3), dict(kind='OPEN', ver=3, asn=65002, hold=90)),
    'OPEN_badas': (peer_open(asn=65009), dict(kind='OPEN', ver=4, asn=65009, hold=90)),
    'OPEN_nocap': (peer_open(caps=None), dict(kind='OPEN', ver=4, asn=65002, hold=90)),
    # My Autonomous System 0 (never a peer's AS: Bad Peer AS), and an optional parameter that is not Capabilities (the
    # deprecated Authentication parameter, type 1: Unsupported Optional Parameters, RFC 4271 6.2)
    'OPEN_as0': (peer_open(asn=0, caps=None), dict(kind='OPEN', ver=4, asn=0, hold=90)),
    # two faults in one OPEN: another AS and hold time 1 (one NOTIFICATION, for either)
    'OPEN_badas_h1': (peer_open(asn=65009, hold=1), dict(kind='OPEN', ver=4, asn=65009, hold=1)),
    'OPEN_optauth': (frame(1, struct.pack('!BHHIB', 4, 65002, 90, 0x0a000002, 4) + b'\x01\x02\x00\x00'),
                     dict(kind='OPEN', ver=4, asn=65002, hold=90, unsup_opt=True)),
    # a recognized capability (4-octet AS) whose value has the wrong length: malformed optional parameter
    'OPEN_badcap': (peer_open(caps=[(1, struct.pack('!HBB', 1, 0, 1)), (65, b'\x00\x01')]), dict(kind='OPEN', ver=4, asn=65002, hold=90, malformed=True)),
    'KA': (KEEPALIVE, dict(kind='KA')),
    'UPD': (UPD_EMPTY, dict(kind='UPD')),
    'UPD1': (UPD_ROUTE, dict(kind='UPD')),
    'UPD_unkfam': (UPD_UNKFAM, dict(kind='UPD')),
    'UPD_malformed': (UPD_MALFORMED, dict(kind='UPD')),
    # MP_UNREACH_NLRI of the BGP-LS AFI with a SAFI the agent does not know
    'UPD_lsunreach': (frame(2, b'\x00\x00\x00\x09\x80\x0f\x06\x40\x04\x40\x01\x02\x03'), dict(kind='UPD')),
    'UPD_wdoverrun': (frame(2, b'\x07\x00\x00\x00\x40\x01\x01\x00'), dict(kind='UPD')),     # Withdrawn Routes Length beyond the message
    'UPD_atoverrun': (frame(2, b'\x00\x00\x07\x00\x40\x01\x01\x00'), dict(kind='UPD')),     # Total Path Attribute Length beyond the message
    'NOTI_VER': (frame(3, b'\x02\x01'), dict(kind='NOTI', code=2, sub=1)),
    'NOTI_CEASE': (frame(3, b'\x06\x02'), dict(kind='NOTI', code=6, sub=2)),
    'NOTI_HDR': (frame(3, b'\x01\x02\x00\x13'), dict(kind='NOTI', code=1, sub=2)),
    'NOTI_UPD': (frame(3, b'\x03\x01'), dict(kind='NOTI', code=3, sub=1)),
    'NOTI_HOLD': (frame(3, b'\x04\x00'), dict(kind='NOTI', code=4, sub=0)),
    'NOTI_FSM': (frame(3, b'\x05\x00'), dict(kind='NOTI', code=5, sub=0)),
    'NOTI_RR': (frame(3, b'\x07\x01'), dict(kind='NOTI', code=7, sub=1)),
    'NOTI_UNK': (frame(3, b'\x09\x63abc'), dict(kind='NOTI', code=9, sub=99)),
    'RR': (frame(5, b'\x00\x01\x00\x01'), dict(kind='RR')),
    'BADMARK': (b'\x00' * 16 + b'\x00\x13\x04', dict(kind='BADMARK')),
    'BADLEN': (b'\xff' * 16 + b'\x00\x12\x04', dict(kind='BADLEN')),
    'BADLEN0': (b'\xff' * 16 + b'\x00\x00\x04', dict(kind='BADLEN')),
    'BADLEN4097': (b'\xff' * 16 + b'\x10\x01\x02', dict(kind='BADLEN')),
    'BADTYPE': (frame(9), dict(kind='BADTYPE')),
    # frames whose length is legal for the header but not for their type (C18/C10 only)
    # RFC 4271 6.1: below the minimum length of the message type (KEEPALIVE: not 19) is a Bad Message Length header error
    'OPEN_short': (frame(1, b'\x04\xfd\xea\x00\x5a\x0a\x00\x00\x02'), dict(kind='BADLEN')),
    'UPD_short': (frame(2, b'\x00\x00\x00'), dict(kind='BADLEN')),
    'NOTI_short': (frame(3, b'\x06'), dict(kind='BADLEN')),
    'KA_long': (frame(4, b'\x00'), dict(kind='BADLEN')),
    'RR_short': (frame(5, b'\x00\x01\x00'), dict(kind='SHORT')),
    'RR_orf': (frame(5, b'\x00\x01\x00\x01' + b'\x01\x40\x00\x01\x00'), dict(kind='RR')),
}
# UPDATEs whose Withdrawn Routes Length / Total Path Attribute Length point at, just before and just beyond the end of the body
LENGTH_EDGE = []
_b = UPD_ROUTE[19:]
for _k in range(0, 6):
    MSGS['UPD_wdlen_end-%d' % _k] = (frame(2, struct.pack('!H', len(_b) - _k) + _b[2:]), dict(kind='UPD'))
    MSGS['UPD_atlen_end-%d' % _k] = (frame(2, _b[:2] + struct.pack('!H', len(_b) - 4 + 2 - _k) + _b[4:]), dict(kind='UPD'))
    LENGTH_EDGE += ['UPD_wdlen_end-%d' % _k, 'UPD_atlen_end-%d' % _k]
ODD_LENGTH = ['OPEN_short', 'UPD_short', 'NOTI_short', 'KA_long', 'RR_short', 'RR_orf']
ALPHABET_C01 = ['OPEN', 'OPEN_h0', 'OPEN_h1', 'OPEN_h2', 'OPEN_h9', 'OPEN_badver', 'OPEN_badas', 'OPEN_badcap', 'OPEN_as0', 'OPEN_optauth', 'OPEN_badas_h1',
                'KA', 'UPD', 'UPD1', 'UPD_unkfam', 'UPD_malformed', 'UPD_wdoverrun', 'NOTI_VER', 'NOTI_CEASE', 'NOTI_HDR', 'NOTI_UPD', 'NOTI_HOLD', 'NOTI_FSM', 'NOTI_RR', 'NOTI_UNK', 'RR', 'BADMARK', 'BADLEN', 'BADLEN0',
                'BADLEN4097', 'BADTYPE', 'OPEN_short', 'UPD_short', 'NOTI_short', 'KA_long']
ALPHABET_SMALL = ['OPEN', 'OPEN_h1', 'OPEN_badas', 'KA', 'UPD', 'NOTI_VER', 'NOTI_CEASE', 'BADMARK']


REST_SENDS = {
    'R_UPD': ('POST', 'send/update', {'attr': {'1': 0, '2': [], '3': '10.0.0.1', '5': 100}, 'nlri': ['198.51.100.0/24']}),
    'R_WD': ('POST', 'send/update', {'withdraw': ['198.51.100.0/24']}),
    'R_RR': ('POST', 'send/route-refresh', {'afi': 1, 'safi': 1}),
    'R_BIN': ('POST', 'send/bin_update', {'binary_data': UPD_ROUTE.hex()}),
    # requests the agent refuses or cannot encode: nothing reaches the wire (C18: nothing may be counted)
    'R_RR6': ('POST', 'send/route-refresh', {'afi': 2, 'safi': 1}),
    'R_RRVPN': ('POST', 'send/route-refresh', {'afi': 1, 'safi': 128}),
    'R_UPDBAD': ('POST', 'send/update', {'attr': {'1': 0, '2': [], '3': 'not-an-address', '5': 100}, 'nlri': ['198.51.100.0/24']}),
    'R_UPDNOATTR': ('POST', 'send/update', {'nlri': ['198.51.100.0/24']}),
    'R_BINBAD': ('POST', 'send/bin_update', {'binary_data': 'zz'}),
    'R_UPDUNKATTR': ('POST', 'send/update', {'attr': {'99': '00'}, 'nlri': ['198.51.100.0/24']}),      # only an attribute the encoder does not know
    # read-only requests outside /v1/peer/: the API root (no credentials needed) and the peer list - they change nothing
    'R_ROOT': ('GET', '/v1/', None, None),
    'R_PEERS': ('GET', '/v1/peers', None),
}


def parse_event(ev):
    script = []
    if '@' in ev:
        ev, s = ev.split('@', 1)
        script = [int(x) for x in s.split('.') if x != '']
    idx = 0
    if '#' in ev:
        ev, i = ev.split('#', 1)
        idx = int(i)
    return ev.rstrip('~'), idx, script


def is_lazy(ev):
    """NAME~ : the event's own action runs, the rest of the instant (zero-delay calls, other timers due now, local close
    completions) is left pending until the next event - an operator request or a peer message can land in between"""
    return ev.split('@', 1)[0].split('#', 1)[0].endswith('~')


class ScriptChooser(object):
    def __init__(self, script):
        self.script = list(script)
        self.pos = 0
        self.sizes = []

    def __call__(self, ready):
        self.sizes.append(len(ready))
        i = self.script[self.pos] if self.pos < len(self.script) else 0
        self.pos += 1
        return i if i < len(ready) else 0


class RandomChooser(object):
    def __init__(self, rng):
        self.rng = rng
        self.sizes = []
        self.picks = []

    def __call__(self, ready):
        self.sizes.append(len(ready))
        i = self.rng.randrange(len(ready))
        self.picks.append(i)
        return i


# requests an application hands to the agent through handler.inter_mq (yabgp/handler/__init__.py)
QUEUED = {
    'Q_UPD': {'type': 'update', 'msg': {'attr': {1: 0, 2: [], 3: '10.0.0.1', 5: 100}, 'nlri': ['203.0.113.0/24'], 'withdraw': []}},
    'Q_WD': {'type': 'update', 'msg': {'attr': {}, 'nlri': [], 'withdraw': ['203.0.113.0/24']}},
    'Q_NOTI': {'type': 'notification', 'msg': {'error': 6, 'sub_error': 4, 'data': b''}},
    'Q_OTHER': {'type': 'route-refresh', 'msg': {}},
}


def apply_event(w, ev, rng=None):
    """Apply one environment event.  Returns dict(applied, sizes) where sizes are the
    same-instant ready-set sizes met while the event was processed."""
    name, idx, script = parse_event(ev)
    ch = RandomChooser(rng) if (rng is not None and not script) else ScriptChooser(script)
    w.chooser = ch
    # NAME~ leaves the rest of its instant pending.  Only an operator's request (a REST worker thread, the application's
    # queue) can land inside it: the reactor runs what is queued and due (thread queue, zero-delay and due timed calls)
    # before it looks at the network again, so any other event first lets it finish.
    if getattr(w, 'lazy', False) and not (name in ('STOP', 'START', 'SETTLE') or name in REST_SENDS or name in QUEUED):
        w.lazy = False
        reactor.run_pass(ch)        # (what that pass schedules with callLater(0) runs after the network event)
    w.lazy = is_lazy(ev)
    ok = True
    if name == 'ACCEPT':
        ok = idx < len(w.pending()) and w.accept(idx) is not None
    elif name == 'REFUSE':
        ok = idx < len(w.pending()) and w.refuse(idx)
    elif name == 'TICK':
        ok = bool(w.tick())
    elif name == 'SETTLE':
        w.settle()          # the reactor finishes the current instant
    elif name.startswith('ADV'):
        w.advance(float(name[3:]))
    elif name in ('PEERCLOSE', 'PEERRESET'):
        trs = w.open_transports()
        ok = idx < len(trs) and w.peer_close(trs[idx], clean=(name == 'PEERCLOSE'))
    elif name == 'LOSTCONN':
        ok = reactor.sim_complete_close(idx)
        w.settle()
    elif name == 'STOP':
        code, body = w.stop()
        ok = (code, body)
    elif name == 'START':
        code, body = w.start()
        ok = (code, body)
    elif name in REST_SENDS:
        method, path, body = REST_SENDS[name][:3]
        ok = w.rest(method, path, json_body=body, **({'headers': REST_SENDS[name][3]} if len(REST_SENDS[name]) > 3 else {}))
    elif name in QUEUED:
        # the application asks for a message through the handler's internal queue (sent when the next KEEPALIVE arrives)
        w.handler.inter_mq.put(copy.deepcopy(QUEUED[name]))
    elif name in MSGS:
        trs = w.live()
        ok = idx < len(trs) and w.deliver(MSGS[name][0], trs[idx])
    else:
        raise ValueError('unknown event %r' % ev)
    w.chooser = None
    full = ev
    picks = getattr(ch, 'picks', None)
    if picks and any(picks):
        full = name + ('~' if is_lazy(ev) else '') + ('#%d' % idx if idx else '') + '@' + '.'.join(str(x) for x in picks)
    return dict(applied=ok, sizes=ch.sizes, name=name, idx=idx, script=script, ev=full)


def enabled(w, alphabet, multi=False, stopstart=True, rest=()):
    ev = list(rest)
    npend, nlive, nopen = len(w.pending()), len(w.live()), len(w.open_transports())
    for i in range(npend if multi else min(npend, 1)):
        s = '' if i == 0 else '#%d' % i
        ev += ['ACCEPT' + s, 'REFUSE' + s]
    for i in range(nlive if multi else min(nlive, 1)):
        s = '' if i == 0 else '#%d' % i
        ev += [m + s for m in alphabet]
    for i in range(nopen if multi else min(nopen, 1)):
        s = '' if i == 0 else '#%d' % i
        ev += ['PEERCLOSE' + s, 'PEERRESET' + s]
    if reactor._calls:
        ev.append('TICK')
    if reactor.defer_io:
        for i in range(len(reactor._io_pending) if multi else min(len(reactor._io_pending), 1)):
            ev.append('LOSTCONN' + ('' if i == 0 else '#%d' % i))
    if stopstart:
        ev += ['STOP', 'START']
    return ev


def choice_variants(ev, info, limit=5):
    """Other same-instant orders of the event just executed (forks beyond its own script)."""
    name, idx, script = parse_event(ev)
    base = name + ('#%d' % idx if idx else '')
    out = []
    k = len(script)
    for p in range(k, len(info['sizes'])):
        for a in range(1, info['sizes'][p]):
            s = script + [0] * (p - k) + [a]
            out.append(base + '@' + '.'.join(str(x) for x in s))
            if len(out) >= limit:
                return out
    return out


def fingerprint(w, extra=None):
    now = reactor.seconds()
    f = w.fsm
    tm = tuple(sorted((d.name, round(d.time - now, 3)) for d in reactor._calls))
    pr = f.protocol
    conns = tuple(sorted(
        (c.state, bool(t and t.connected), bool(t and t.disconnecting),
         bool(t and pr is not None and t is pr.transport))
        for c in reactor._attempts for t in ([c.transports[-1]] if c.transports else [None])
        if c.state != 'disconnected' or (t and t.connected)))
    caps = CONF.bgp.running_config['capability']
    return (f.state, f.allow_automatic_start, f.hold_time, round(f.keep_alive_time, 3), tm, conns,
            None if pr is None else (pr.disconnected, pr.fourbytesas, pr._receive_buffer),
            repr(sorted(caps['local'].items(), key=str)), repr(sorted(caps['remote'].items(), key=str)),
            w.peering.peer_id, w.peering.estab_protocol is pr, extra)


class Run(object):
    """One executed event sequence with its monitors."""

    def __init__(self, cfg, monitor_classes, rng=None):
        self.cfg = cfg
        self.w = World(**cfg)
        self.monitors = [M(self.w) for M in monitor_classes]
        for m in self.monitors:
            m.run = self
        self.violations = []
        self.cut = False
        self.rng = rng
        self.seq = []
        self.info = None

    def step(self, ev):
        for m in self.monitors:
            m.cur_ev, m.n_before = ev, len(self.seq)
            m.before(ev)
        self.info = apply_event(self.w, ev, self.rng)
        self.seq.append(self.info['ev'])
        for m in self.monitors:
            r = m.after(ev, self.info)
            if r == 'CUT':
                self.cut = True
        return self.info

    def collect(self):
        out = []
        for m in self.monitors:
            for v in m.violations:
                v.setdefault('replay', {})
                v['replay'].setdefault('cfg', self.cfg)
                v['replay'].setdefault('events', list(v.get('at_seq') or self.seq))
                fz = {parse_event(e)[0]: MSGS[parse_event(e)[0]][0].hex() for e in v['replay']['events'] if parse_event(e)[0].startswith('FZ')}
                if fz:
                    v['replay'].setdefault('fuzz', fz)
                    v['replay'].setdefault('fuzz_meta', {k: MSGS[k][1] for k in fz if MSGS[k][1].get('kind') != 'FUZZ'})
                v.pop('at_seq', None)
                out.append(v)
        return out


class Monitor(object):
    def __init__(self, w):
        self.w = w
        self.violations = []
        self.sigs = set()

    def before(self, ev):
        pass

    def after(self, ev, info):
        pass

    def extra(self):
        return None

    def report(self, kind, detail, features=(), seq=None):
        s = (kind, tuple(sorted(features)))
        if s in self.sigs:
            return
        self.sigs.add(s)
        if seq is None and getattr(self, 'run', None) is not None:
            seq = list(self.run.seq) + ([self.cur_ev] if getattr(self, 'cur_ev', None) and len(self.run.seq) == self.n_before else [])
        self.violations.append(dict(kind=kind, features=sorted(features), detail=detail, at_seq=seq))


def fuzz_alphabet(rng, n):
    """register n well-framed mutations of the unit-test corpus messages as events FZ0..; returns their names"""
    from . import corpus, mutate
    msgs = corpus.messages()
    names = []
    for j in range(n):
        t, b = rng.choice(msgs)
        if rng.random() < 0.8:
            b = mutate.random_mutation(b, rng)[:4077]
        MSGS['FZ%d' % j] = (frame(t, b), dict(kind='FUZZ'))
        names.append('FZ%d' % j)
    return names


def fuzz_alphabet_typed(rng, n):
    """like fuzz_alphabet, but only message kinds the RFC 4271 profile has a row for: UPDATE (>= 23 octets), NOTIFICATION
    (>= 21), ROUTE-REFRESH (>= 23) with mutated bodies; the event carries the kind the profile needs"""
    from . import corpus, mutate
    msgs = [(t, b) for t, b in corpus.messages() if t in (2, 3, 5)]
    names = []
    j = 0
    while len(names) < n and j < 20 * n:
        j += 1
        t, b = rng.choice(msgs)
        b = mutate.random_mutation(b, rng)[:4077]
        if t == 2 and len(b) >= 4:
            meta = dict(kind='UPDH')
        elif t == 3 and len(b) >= 2:
            meta = dict(kind='NOTI', code=b[0], sub=b[1])
        elif t == 5 and len(b) >= 4:
            meta = dict(kind='RR')
        else:
            continue
        name = 'FZ%d' % len(names)
        MSGS[name] = (frame(t, b), meta)
        names.append(name)
    return names


def noti_alphabet(rng, n):
    """n peer NOTIFICATIONs: every error code with its RFC sub-codes (RFC 4271 4.5, RFC 4486 / 9003 Cease sub-codes 1..10,
    RFC 7313) and unassigned ones, with data that is empty, binary, UTF-8 text (shutdown communication), Latin-1 text or text
    cut inside a multi-octet character.  Names start with FZ so that replays carry them."""
    names = []
    subs = {1: [1, 2, 3, 0, 9], 2: [1, 2, 3, 4, 6, 7, 8, 0], 3: list(range(0, 12)), 4: [0, 1], 5: [0, 1, 2, 3], 6: list(range(0, 11)), 7: [0, 1, 2], 8: [0], 0: [0], 255: [255]}
    for k in range(n):
        code = rng.choice(sorted(subs))
        sub = rng.choice(subs[code])
        kind = rng.choice(['empty', 'binary', 'utf8', 'latin1', 'cut', 'long'])
        if kind == 'empty':
            data = b''
        elif kind == 'binary':
            data = bytes(rng.getrandbits(8) for _ in range(rng.choice([1, 2, 6, 21])))
        elif kind == 'utf8':
            t = 'maintenance \u2013 zur\u00fcck um 12:00'.encode('utf-8')
            data = bytes([len(t)]) + t
        elif kind == 'latin1':
            t = 'zur\u00fcck um 12:00'.encode('latin-1')
            data = bytes([len(t)]) + t
        elif kind == 'cut':
            t = 'wartung \u20ac'.encode('utf-8')[:-1]
            data = bytes([len(t)]) + t
        else:
            data = bytes(rng.getrandbits(8) for _ in range(rng.choice([128, 255, 1000])))
        name = 'FZN%d' % k
        MSGS[name] = (frame(3, bytes([code, sub]) + data), dict(kind='NOTI', code=code, sub=sub))
        names.append(name)
    return names


def open_alphabet(rng, n, remote_as=65002):
    """n peer OPENs from a grammar (RFC 4271 4.2, RFC 5492): random capability sets in random packaging, boundary hold times,
    2- and 4-octet AS forms, and at most ONE problem each - version, AS 0, another AS (in the field or in the 4-octet
    capability), hold time 1 or 2, an optional parameter that is not Capabilities, a 4-octet-AS / multiprotocol capability
    of the wrong length - with the meta data the RFC 4271 profile needs.  Names start with FZ so that replays carry them."""
    names = []
    for k in range(n):
        problem = rng.choice([None, None, None, 'ver', 'as0', 'asbad', 'hold', 'optparam', 'badcap'])
        # now and then a second fault in the same OPEN (any one of them may be the one that is answered)
        second = rng.choice(['hold', 'asbad', 'optparam']) if problem in ('asbad', 'hold', 'optparam', 'as0') and rng.random() < 0.25 else None
        ver, hold = 4, rng.choice([0, 3, 4, 9, 30, 90, 180, 240, 65535])
        as4 = rng.random() < 0.7 or remote_as > 65535
        asn = remote_as
        caps = []
        for afi, safi in rng.sample([(1, 1), (2, 1), (1, 4), (1, 128), (2, 128), (1, 133), (25, 70), (16388, 71), (1, 73), (3, 9)], rng.choice([0, 1, 2, 4])):
            caps.append((1, struct.pack('!HBB', afi, 0, safi)))
        if rng.random() < 0.6:
            caps.append((2, b''))
        if rng.random() < 0.3:
            caps.append((128, b''))
        if rng.random() < 0.3:
            caps.append((70, b''))
        if rng.random() < 0.3:
            caps.append((64, struct.pack('!H', rng.choice([0, 120, 0x8078])) + b''.join(struct.pack('!HBB', 1, 1, rng.choice([0, 0x80])) for _ in range(rng.choice([0, 1])))))
        if rng.random() < 0.2:
            caps.append((69, struct.pack('!HBB', 1, 1, rng.choice([1, 2, 3]))))
        if rng.random() < 0.2:
            caps.append((5, struct.pack('!HHH', 1, 1, 2)))
        if rng.random() < 0.3:
            caps.append((rng.choice([3, 4, 6, 67, 73, 129, 200, 255]), bytes(rng.getrandbits(8) for _ in range(rng.choice([0, 1, 4, 9])))))
        if problem == 'ver':
            ver = rng.choice([0, 1, 2, 3, 5, 255])
        if 'hold' in (problem, second):
            hold = rng.choice([1, 2])
        if 'asbad' in (problem, second) and problem != 'as0':
            asn = rng.choice([65009, 1, 64512] + ([4200000009, 65536] if as4 else []))
        if problem == 'as0':
            as4, asn = False, 0
        if as4:
            caps.append((65, struct.pack('!I', asn)))
        if problem == 'badcap':
            if rng.random() < 0.5:
                caps = [c for c in caps if c[0] != 65] + [(65, bytes(rng.choice([0, 2, 3, 5])))]
            else:
                caps.append((1, bytes(rng.choice([0, 3, 5]))))
        rng.shuffle(caps)
        # packaging: one Capabilities parameter, one each, or two groups
        style = rng.choice(['one', 'each', 'two'])
        groups = [caps] if style == 'one' else ([[c] for c in caps] if style == 'each' else [caps[:len(caps) // 2], caps[len(caps) // 2:]])
        params = []
        for g in groups:
            if g:
                body = b''.join(struct.pack('!BB', c, len(v)) + v for c, v in g)
                if len(body) < 250:
                    params.append(struct.pack('!BB', 2, len(body)) + body)
        if 'optparam' in (problem, second):
            junk = bytes(rng.getrandbits(8) for _ in range(rng.choice([0, 1, 6])))
            params.insert(rng.randint(0, len(params)), struct.pack('!BB', rng.choice([1, 3, 4, 254]), len(junk)) + junk)
        opt = b''.join(params)
        if len(opt) > 250:
            opt = params[0]
        field = asn if asn < 65536 else 23456
        fr = frame(1, struct.pack('!BHHIB', ver, field, hold, rng.choice([0x0a000002, 0x01010101, 0xfffffffe]), len(opt)) + opt)
        meta = dict(kind='OPEN', ver=ver, asn=asn, hold=hold)
        if problem == 'badcap':
            meta['malformed'] = True
        if 'optparam' in (problem, second):
            meta['unsup_opt'] = True
        name = 'FZO%d' % k
        MSGS[name] = (fr, meta)
        names.append(name)
    return names


def register_fuzz(d, metas=None):
    for k, m in (metas or {}).items():
        if k in (d or {}):
            MSGS[k] = (bytes.fromhex(d[k]), m)
    if metas:
        d = {k: v for k, v in d.items() if k not in metas}
    for k, hx in (d or {}).items():
        MSGS[k] = (bytes.fromhex(hx), dict(kind='FUZZ'))


def run_seq(cfg, seq, monitor_classes, fuzz=None, fuzz_meta=None):
    register_fuzz(fuzz, fuzz_meta)
    r = Run(cfg, monitor_classes)
    for ev in seq:
        r.step(ev)
        if r.cut:
            break
    return r


class Explorer(object):
    """Breadth-first over event sequences from boot with fingerprint de-duplication.
    A prefix is re-executed from boot; the monitors judge every step of every executed sequence."""

    def __init__(self, cfg, monitor_classes, alphabet, multi=False, stopstart=True, max_forks=5,
                 on_state=None, on_run=None, rest=()):
        self.on_run = on_run
        self.rest = rest
        self.cfg, self.mon, self.alphabet = cfg, monitor_classes, alphabet
        self.multi, self.stopstart, self.max_forks = multi, stopstart, max_forks
        self.seen = {}
        self.execs = 0
        self.events = 0
        self.cuts = 0
        self.viol = {}
        self.pairs = set()
        self.choice_points = 0
        self.on_state = on_state

    def _run(self, seq):
        r = run_seq(self.cfg, seq, self.mon)
        self.execs += 1
        self.events += len(r.seq)
        if self.on_run:
            self.on_run(r)
        for v in r.collect():
            k = (v['kind'], tuple(v['features']))
            if k not in self.viol:
                self.viol[k] = v
        return r

    def expand(self, frontier, select=None):
        nxt = []
        for n, seq in enumerate(frontier):
            if select is not None and not select(n):
                continue
            r = self._run(seq)
            if r.cut:
                continue
            evs = enabled(r.w, self.alphabet, self.multi, self.stopstart, self.rest)
            todo = list(evs)
            while todo:
                e = todo.pop(0)
                s2 = tuple(seq) + (e,)
                r2 = self._run(s2)
                if len(parse_event(e)[2]) == 0 or True:
                    if r2.info and r2.info['sizes']:
                        self.choice_points += 1
                        for v in choice_variants(e, r2.info, self.max_forks):
                            if v not in todo and len([x for x in todo if '@' in x]) < self.max_forks:
                                todo.append(v)
                if r2.cut:
                    self.cuts += 1
                    continue
                k = fingerprint(r2.w, tuple(m.extra() for m in r2.monitors))
                if k not in self.seen:
                    self.seen[k] = s2
                    nxt.append(s2)
                    if self.on_state:
                        self.on_state(r2, s2)
        return nxt


def random_walk(cfg, monitor_classes, alphabet, rng, length, multi=False, stopstart=True, weights=None, rest=(), lazy=0.0):
    r = Run(cfg, monitor_classes, rng=rng)
    for _ in range(length):
        evs = enabled(r.w, alphabet, multi, stopstart, rest)
        if not evs:
            break
        if weights:
            ws = [weights.get(parse_event(e)[0], 1.0) for e in evs]
            e = rng.choices(evs, ws)[0]
        else:
            e = rng.choice(evs)
        if lazy and rng.random() < lazy and parse_event(e)[0] not in REST_SENDS and parse_event(e)[0] not in QUEUED:
            # sub-instant interleaving: the reactor has not finished this instant when the next event arrives.  Not for REST
            # sends: their write is queued from a worker thread, and preemption between those threads and the reactor is
            # outside the event model (DESIGN.md 16)
            n_, i_, s_ = parse_event(e)
            e = n_ + '~' + ('#%d' % i_ if i_ else '')
        r.step(e)
        if r.cut:
            break
    if getattr(r.w, 'lazy', False) and not r.cut:
        r.step('SETTLE')
    return r


def bfs_shard(cfg, monitor_classes, alphabet, depth0, depth, part, nparts, multi=False, stopstart=True,
              on_state=None, max_forks=5, time_budget=None, on_run=None, rest=(), start=None):
    """Deterministic BFS to depth0 in every shard, then this shard continues its slice of the frontier.
    Returns the Explorer (seen states, executed sequences, violations)."""
    import time as _t
    from .env import real_monotonic
    t0 = real_monotonic()
    ex = Explorer(cfg, monitor_classes, alphabet, multi=multi, stopstart=stopstart, max_forks=max_forks,
                  on_state=on_state if part == 0 else None, on_run=on_run if part == 0 else None, rest=rest)
    # `start`: event sequences to continue from instead of boot (prefix-seeded exploration; depth counts the added events)
    frontier = [tuple(x) for x in start] if start else [()]
    d = 0
    ex.depth_reached = 0
    ex.truncated = False
    while d < depth and frontier:
        if d == depth0:
            frontier = frontier[part::nparts]
            ex.on_state = on_state
            ex.on_run = on_run
        if d < depth0 and part != 0:
            pass
        nxt = []
        for i, seq in enumerate(frontier):
            if time_budget is not None and real_monotonic() - t0 > time_budget:
                ex.truncated = True
                break
            nxt += ex.expand([seq])
        frontier = nxt
        d += 1
        ex.depth_reached = d
        if ex.truncated:
            break
    ex.frontier_left = len(frontier)
    return ex


def cooperate(w, duration, hold=90, asn=None, caps='default', watch=None, close_lag=20.0):
    """Drive the world with a cooperative peer for `duration` virtual seconds: accepts TCP at once,
    answers the agent's OPEN with a valid OPEN, its KEEPALIVE with a KEEPALIVE, then sends KEEPALIVE
    every H/3 (H = min(agent's offer, hold)).  Returns dict(first_up, down_after_up, opens, connects).
    In deferred-close mode a close the agent started completes late but eventually: right after the next
    connection was accepted (the agent's new OPEN is out), or `close_lag` seconds after it was started."""
    from . import wire as _wire

    def overdue(x):
        # (the same expression as the wake-up time below: t_lose + close_lag, never now - t_lose - the two round differently)
        return x[1].t_lose is not None and w.now() >= x[1].t_lose + close_lag - 1e-9

    def late_closes(force):
        done = False
        while reactor.defer_io and reactor._io_pending and (force or any(overdue(x) for x in reactor._io_pending)):
            idx = 0
            if not force:
                idx = [i for i, x in enumerate(reactor._io_pending) if overdue(x)][0]
            reactor.sim_complete_close(idx)
            w.settle()
            res['late_closes'] += 1
            done = True
        return done

    t_start = w.now()
    end = t_start + duration
    ps = {}
    res = dict(first_up=None, down_after_up=None, opens=[], connects=0, sessions=0, t_start=t_start, late_closes=0)
    asn = w.remote_as if asn is None else asn
    guard = 0
    while True:
        guard += 1
        if guard > 200000:
            raise RuntimeError('cooperate: no progress')
        progressed = True
        while progressed:
            progressed = False
            for c in w.pending():
                c.sim_accept()
                res['connects'] += 1
                w.settle()
                late_closes(True)
                progressed = True
            if late_closes(False):
                progressed = True
            for t in w.live():
                if id(t) not in ps:
                    st = ps[id(t)] = dict(open=False, ka=False, next_ka=None, H=None, seen=0)
                    # a connection that is already in use: continue it the way a well-behaved peer would
                    items, _ = _wire.deframe(b''.join(d for _, d in t.delivered))
                    prior = [it for it in items if it[0] == 'frame']
                    po = [it for it in prior if it[1] == 1]
                    aw = [f for f in _wire.frames_of_writes(t.written) if f[1] == 1]
                    # the peer's earlier OPEN counts only if the agent confirmed it with a KEEPALIVE: one it ignored or is
                    # still waiting for (OpenSent) is followed by a valid OPEN, as a peer that behaves would send
                    confirmed = any(f[1] == 4 for f in _wire.frames_of_writes(t.written))
                    if po and aw and confirmed:
                        o_peer, o_me = _wire.parse_open(po[0][2]), _wire.parse_open(aw[0][2])
                        if o_peer and o_me:
                            st['open'] = True
                            st['H'] = min(o_peer['hold'], o_me['hold'])
                            if any(it[1] == 4 for it in prior):
                                st['ka'] = True
                                st['next_ka'] = w.now() if st['H'] else None
                st = ps[id(t)]
                frames = _wire.frames_of_writes(t.written)
                if not st['open'] and any(f[1] == 1 for f in frames):
                    o = _wire.parse_open([f for f in frames if f[1] == 1][0][2])
                    res['opens'].append([f for f in frames if f[1] == 1][0][3].hex())
                    st['H'] = min(o['hold'], hold) if o else hold
                    st['open'] = True
                    w.deliver(peer_open(asn=asn, hold=hold, caps=caps), t)
                    progressed = True
                elif st['open'] and not st['ka'] and any(f[1] == 4 for f in frames):
                    st['ka'] = True
                    res['sessions'] += 1
                    st['next_ka'] = (w.now() + st['H'] / 3.0) if st['H'] else None
                    w.deliver(KEEPALIVE, t)
                    progressed = True
        up = w.state_direct() == 'ESTABLISHED'
        if up and res['first_up'] is None:
            res['first_up'] = w.now()
        if not up and res['first_up'] is not None and res['down_after_up'] is None:
            res['down_after_up'] = w.now()
        if watch:
            watch(w)
        if w.now() >= end:
            break
        cands = [end]
        nt = reactor.next_time()
        if nt is not None:
            cands.append(nt)
        for t in w.live():
            st = ps.get(id(t))
            if st and st['next_ka'] is not None:
                cands.append(st['next_ka'])
        if reactor.defer_io:
            for x in reactor._io_pending:
                if x[1].t_lose is not None:
                    cands.append(x[1].t_lose + close_lag)
        nxt = max(min(cands), w.now())
        if nxt > w.now():
            w.advance(nxt - w.now())
        else:
            w.settle()
        sent = False
        for t in w.live():
            st = ps.get(id(t))
            if st and st['next_ka'] is not None and w.now() >= st['next_ka'] - 1e-9:
                st['next_ka'] += st['H'] / 3.0
                w.deliver(KEEPALIVE, t)
                sent = True
        if nxt <= w.now() and not sent and not reactor.ready() and (nt is None or nt > w.now()):
            # nothing due now: jump
            pass
    return res
