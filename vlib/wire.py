"""Reference RFC 4271 section 4.1 deframer and small decoders for what the agent writes.
Imports nothing from yabgp."""
import struct

MARKER = b'\xff' * 16
OPEN, UPDATE, NOTIFICATION, KEEPALIVE, ROUTE_REFRESH, CISCO_RR = 1, 2, 3, 4, 5, 128
KNOWN_TYPES = (1, 2, 3, 4, 5, 128)
MIN_LEN = {1: 29, 2: 23, 3: 21, 4: 19, 5: 23, 128: 23}
TYPE_NAME = {1: 'Opens', 2: 'Updates', 3: 'Notifications', 4: 'Keepalives', 5: 'RouteRefresh', 128: 'RouteRefresh'}


def deframe(stream, known_types=KNOWN_TYPES):
    """Split a byte stream into frames.
    Returns (items, rest): items are ('frame', type, body, raw) or a final ('error', subcode, data);
    rest = trailing bytes of an incomplete frame (only when no error)."""
    items = []
    off = 0
    n = len(stream)
    while True:
        if n - off < 19:
            return items, stream[off:]
        if stream[off:off + 16] != MARKER:
            items.append(('error', 1, b''))
            return items, b''
        length, typ = struct.unpack('!HB', stream[off + 16:off + 19])
        if length < 19 or length > 4096:
            items.append(('error', 2, struct.pack('!H', length)))
            return items, b''
        if n - off < length:
            # RFC 4271 6.1: the type is validated once the header is available; an
            # implementation may equally wait for the whole message.  Report 'unknown type'
            # only when the frame is complete so both behaviours agree on complete streams.
            return items, stream[off:]
        if typ not in known_types:
            items.append(('error', 3, bytes([typ])))
            return items, b''
        items.append(('frame', typ, stream[off + 19:off + length], stream[off:off + length]))
        off += length


def frames_of_writes(written):
    """[(t, bytes)] -> [(t, type, body, raw)]; the agent writes whole messages per write call but
    the tap re-frames the concatenation anyway."""
    out = []
    buf = b''
    for t, d in written:
        buf += d
        items, rest = deframe(buf, known_types=tuple(range(256)))
        for it in items:
            if it[0] == 'frame':
                out.append((t, it[1], it[2], it[3]))
            else:
                out.append((t, 'garbage', buf, buf))
                return out
        buf = rest
    if buf:
        out.append((written[-1][0], 'partial', buf, buf))
    return out


def notif(body):
    if len(body) < 2:
        return None
    return body[0], body[1], body[2:]


def summarize(fr):
    """(t, type, body, raw) -> short tuple used by monitors: (1,), (2,), (3, code, sub), (4,), (5,)"""
    t = fr[1]
    if t == 3:
        nb = notif(fr[2])
        return (3, nb[0], nb[1]) if nb else (3, None, None)
    return (t,)


def parse_open(body):
    """Reference OPEN decoder: dict(version, asn, hold, bgp_id, caps=[(code, value)], as4)"""
    if len(body) < 10:
        return None
    ver, asn, hold, bid, optlen = struct.unpack('!BHHIB', body[:10])
    opt = body[10:]
    if len(opt) != optlen:
        return dict(version=ver, asn=asn, hold=hold, bgp_id=bid, caps=None, error='optlen')
    caps = []
    i = 0
    while i < len(opt):
        if i + 2 > len(opt):
            return dict(version=ver, asn=asn, hold=hold, bgp_id=bid, caps=None, error='param')
        ptype, plen = opt[i], opt[i + 1]
        pval = opt[i + 2:i + 2 + plen]
        if len(pval) != plen:
            return dict(version=ver, asn=asn, hold=hold, bgp_id=bid, caps=None, error='paramlen')
        i += 2 + plen
        if ptype != 2:
            caps.append(('param', ptype, pval))
            continue
        j = 0
        while j < len(pval):
            if j + 2 > len(pval):
                return dict(version=ver, asn=asn, hold=hold, bgp_id=bid, caps=None, error='cap')
            code, clen = pval[j], pval[j + 1]
            cval = pval[j + 2:j + 2 + clen]
            if len(cval) != clen:
                return dict(version=ver, asn=asn, hold=hold, bgp_id=bid, caps=None, error='caplen')
            caps.append((code, cval))
            j += 2 + clen
    as4 = None
    for c in caps:
        if c[0] == 65 and len(c[1]) == 4:
            as4 = struct.unpack('!I', c[1])[0]
    return dict(version=ver, asn=asn, hold=hold, bgp_id=bid, caps=caps, as4=as4)
