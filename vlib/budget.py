"""Soft time box for a shard: open-ended random workloads poll expired() and stop cleanly.

The wall clock never decides a verdict: a time-boxed shard reports what it covered, the
floors of the check decide whether that is enough (otherwise the run is inconclusive).
"""
import time

from .env import real_monotonic

STATE = dict(deadline=None, boxed=False)


def start(soft_seconds):
    STATE['deadline'] = (real_monotonic() + soft_seconds) if soft_seconds else None
    STATE['boxed'] = False


def expired():
    d = STATE['deadline']
    if d is not None and real_monotonic() > d:
        STATE['boxed'] = True
        return True
    return False
