"""Seed corpus: every bytes literal in yabgp/tests/** harvested with ast at run time (DESIGN.md 4.4)."""
import ast
import os

from . import env

_cache = {}


def harvest(min_len=1, max_len=4096):
    key = (min_len, max_len)
    if key in _cache:
        return _cache[key]
    root = os.path.join(env.REPO, 'yabgp', 'tests')
    seen = set()
    out = []
    for dp, dn, fn in sorted(os.walk(root)):
        for f in sorted(fn):
            if not f.endswith('.py'):
                continue
            p = os.path.join(dp, f)
            try:
                tree = ast.parse(open(p, 'rb').read())
            except Exception:
                continue
            for node in ast.walk(tree):
                if isinstance(node, ast.Constant) and isinstance(node.value, bytes):
                    b = node.value
                    if min_len <= len(b) <= max_len and b not in seen:
                        seen.add(b)
                        out.append((os.path.relpath(p, root), b))
                elif isinstance(node, ast.BinOp):
                    # concatenated literals  b'..' + b'..'
                    try:
                        v = ast.literal_eval(node)
                    except Exception:
                        continue
                    if isinstance(v, bytes) and min_len <= len(v) <= max_len and v not in seen:
                        seen.add(v)
                        out.append((os.path.relpath(p, root), v))
    _cache[key] = out
    return out


def messages():
    """corpus items that are whole BGP messages (start with the marker): (type, body)"""
    out = []
    for src, b in harvest():
        if len(b) >= 19 and b[:16] == b'\xff' * 16:
            out.append((b[18], b[19:]))
    return out
