"""Structural walker: a purely syntactic checker of BGP messages (DESIGN.md 3.2).
Shares no code with yabgp or with vlib/refenc.py.  walk(frame) -> list of problem strings (empty = valid).

Checked: header length = frame size; UPDATE: withdrawn length + attribute length + NLRI fill the body; every
attribute: flag octet vs the RFC category of its type code, low four flag bits zero, 1- or 2-octet length per
the extended-length bit, length = bytes that follow, no duplicate type; nested containers sum exactly;
prefixes occupy ceil(len/8) octets; MP_REACH next-hop length and reserved octet; labelled / VPN NLRI bit
lengths; EVPN route length octet; flowspec length (1 or 2 octets by the 0xF0 rule), component order and
operator chains ending in an end-of-list bit; tunnel-encapsulation TLVs and sub-TLVs (1-octet length below
type 128, 2-octet from 128), SR-policy segment lists; PMSI tunnel; OPEN parameter and capability lengths.
"""
import struct

WK, ONT, OT = 'well-known', 'optional non-transitive', 'optional transitive'
CATEGORY = {1: WK, 2: WK, 3: WK, 4: ONT, 5: WK, 6: WK, 7: OT, 8: OT, 9: ONT, 10: ONT, 14: ONT, 15: ONT, 16: OT, 17: OT, 18: OT,
            22: OT, 23: OT, 25: OT, 29: ONT, 32: OT, 40: OT}
FIXED_LEN = {1: (1,), 3: (4,), 4: (4,), 5: (4,), 6: (0,), 9: (4,)}
MULTIPLE_OF = {8: 4, 10: 4, 16: 8, 32: 12}


class P(object):
    def __init__(self):
        self.problems = []
        self.stats = dict(containers=0, depth=0, attrs=set())

    def bad(self, where, what):
        self.problems.append('%s: %s' % (where, what))

    def container(self, depth):
        self.stats['containers'] += 1
        self.stats['depth'] = max(self.stats['depth'], depth)


def walk(frame, asn4=None, addpath=False, stats=None):
    p = P()
    n = len(frame)
    if n < 19:
        return ['frame shorter than a header (%d octets)' % n]
    if frame[:16] != b'\xff' * 16:
        p.bad('header', 'marker is not all ones')
    length, typ = struct.unpack('!HB', frame[16:19])
    if length != n:
        p.bad('header', 'length field %d but the message has %d octets' % (length, n))
    if not 19 <= n <= 4096:
        p.bad('header', 'message of %d octets is outside 19..4096' % n)
    body = frame[19:]
    p.container(1)
    if typ == 1:
        walk_open(p, body)
    elif typ == 2:
        walk_update(p, body, asn4, addpath)
    elif typ == 3:
        if len(body) < 2:
            p.bad('NOTIFICATION', 'body of %d octets, code and subcode need 2' % len(body))
    elif typ == 4:
        if body:
            p.bad('KEEPALIVE', 'carries %d body octets' % len(body))
    elif typ in (5, 128):
        if len(body) < 4:
            p.bad('ROUTE-REFRESH', 'body of %d octets, needs at least 4' % len(body))
    else:
        p.bad('header', 'unknown message type %d' % typ)
    if stats is not None:
        stats['containers'] = stats.get('containers', 0) + p.stats['containers']
        stats['depth'] = max(stats.get('depth', 0), p.stats['depth'])
        stats.setdefault('attr_flags', set()).update(p.stats['attrs'])
    return p.problems


# ------------------------------------------------------------------ OPEN
CAP_LEN = {1: lambda l: l == 4, 2: lambda l: l == 0, 128: lambda l: l == 0, 70: lambda l: l == 0, 65: lambda l: l == 4,
           69: lambda l: l % 4 == 0 and l > 0, 5: lambda l: l % 6 == 0, 64: lambda l: l >= 2 and (l - 2) % 4 == 0, 71: lambda l: l % 7 == 0}


def walk_open(p, b):
    if len(b) < 10:
        p.bad('OPEN', 'body of %d octets, fixed part needs 10' % len(b))
        return
    optlen = b[9]
    opt = b[10:]
    if optlen != len(opt):
        p.bad('OPEN', 'optional parameters length %d but %d octets follow' % (optlen, len(opt)))
    if b[0] != 4:
        p.bad('OPEN', 'version %d' % b[0])
    i = 0
    while i < len(opt):
        p.container(2)
        if i + 2 > len(opt):
            p.bad('OPEN', 'truncated optional parameter header')
            return
        pt, pl = opt[i], opt[i + 1]
        pv = opt[i + 2:i + 2 + pl]
        if len(pv) != pl:
            p.bad('OPEN', 'parameter type %d length %d but only %d octets remain' % (pt, pl, len(pv)))
            return
        i += 2 + pl
        if pt == 2:
            j = 0
            while j < len(pv):
                p.container(3)
                if j + 2 > len(pv):
                    p.bad('OPEN', 'truncated capability header')
                    return
                cc, cl = pv[j], pv[j + 1]
                cv = pv[j + 2:j + 2 + cl]
                if len(cv) != cl:
                    p.bad('OPEN', 'capability %d length %d but only %d octets remain in its parameter' % (cc, cl, len(cv)))
                    return
                if cc in CAP_LEN and not CAP_LEN[cc](cl):
                    p.bad('OPEN', 'capability %d has length %d' % (cc, cl))
                j += 2 + cl


# ------------------------------------------------------------------ UPDATE
def walk_prefixes(p, where, data, maxbits, addpath=False):
    i = 0
    while i < len(data):
        if addpath:
            if i + 4 > len(data):
                p.bad(where, 'truncated path identifier')
                return
            i += 4
        if i >= len(data):
            p.bad(where, 'path identifier without prefix')
            return
        bits = data[i]
        if bits > maxbits:
            p.bad(where, 'prefix length %d > %d' % (bits, maxbits))
            return
        nb = (bits + 7) // 8
        if i + 1 + nb > len(data):
            p.bad(where, 'prefix of %d bits needs %d octets, %d remain' % (bits, nb, len(data) - i - 1))
            return
        i += 1 + nb


def walk_update(p, b, asn4, addpath):
    if len(b) < 4:
        p.bad('UPDATE', 'body of %d octets' % len(b))
        return
    wl = struct.unpack('!H', b[:2])[0]
    if 2 + wl + 2 > len(b):
        p.bad('UPDATE', 'withdrawn routes length %d does not fit a body of %d octets' % (wl, len(b)))
        return
    al = struct.unpack('!H', b[2 + wl:4 + wl])[0]
    if 4 + wl + al > len(b):
        p.bad('UPDATE', 'total path attribute length %d does not fit (withdrawn %d, body %d)' % (al, wl, len(b)))
        return
    walk_prefixes(p, 'withdrawn routes', b[2:2 + wl], 32, addpath)
    attrs = b[4 + wl:4 + wl + al]
    nlri = b[4 + wl + al:]
    walk_prefixes(p, 'NLRI', nlri, 32, addpath)
    seen = set()
    i = 0
    while i < len(attrs):
        p.container(2)
        if i + 3 > len(attrs):
            p.bad('attributes', 'truncated attribute header at offset %d' % i)
            return
        fl, code = attrs[i], attrs[i + 1]
        if fl & 0x10:
            if i + 4 > len(attrs):
                p.bad('attribute %d' % code, 'truncated extended length')
                return
            ln = struct.unpack('!H', attrs[i + 2:i + 4])[0]
            hdr = 4
        else:
            ln = attrs[i + 2]
            hdr = 3
        val = attrs[i + hdr:i + hdr + ln]
        if len(val) != ln:
            p.bad('attribute %d' % code, 'length %d but only %d octets remain in the attribute list' % (ln, len(val)))
            return
        i += hdr + ln
        p.stats['attrs'].add('%d:0x%02x' % (code, fl))
        if fl & 0x0f:
            p.bad('attribute %d' % code, 'unused flag bits set (0x%02x)' % fl)
        cat = CATEGORY.get(code)
        opt, trans, part = bool(fl & 0x80), bool(fl & 0x40), bool(fl & 0x20)
        if cat == WK and (opt or not trans or part):
            p.bad('attribute %d' % code, 'well-known attribute with flags 0x%02x' % fl)
        elif cat == ONT and (not opt or trans or part):
            p.bad('attribute %d' % code, 'optional non-transitive attribute with flags 0x%02x' % fl)
        elif cat == OT and (not opt or not trans):
            p.bad('attribute %d' % code, 'optional transitive attribute with flags 0x%02x' % fl)
        if code in seen:
            p.bad('attribute %d' % code, 'appears twice')
        seen.add(code)
        walk_attr(p, code, val, asn4, addpath)


def walk_attr(p, code, v, asn4, addpath):
    w = 'attribute %d' % code
    if code in FIXED_LEN and len(v) not in FIXED_LEN[code]:
        p.bad(w, 'length %d, must be %s' % (len(v), FIXED_LEN[code]))
    if code in MULTIPLE_OF and len(v) % MULTIPLE_OF[code]:
        p.bad(w, 'length %d is not a multiple of %d' % (len(v), MULTIPLE_OF[code]))
    if code == 1 and len(v) == 1 and v[0] > 2:
        p.bad(w, 'ORIGIN value %d' % v[0])
    if code in (2, 17):
        width = 4 if (code == 17 or asn4) else 2
        i = 0
        while i < len(v):
            p.container(3)
            if i + 2 > len(v):
                p.bad(w, 'truncated segment header')
                return
            st, cnt = v[i], v[i + 1]
            if st not in (1, 2, 3, 4):
                p.bad(w, 'segment type %d' % st)
            if asn4 is None and code == 2:
                # width unknown: accept either if it fits exactly
                if i + 2 + cnt * 2 > len(v) and i + 2 + cnt * 4 > len(v):
                    p.bad(w, 'segment of %d ASNs does not fit' % cnt)
                return
            if i + 2 + cnt * width > len(v):
                p.bad(w, 'segment of %d ASNs (%d octets each) does not fit the %d remaining octets' % (cnt, width, len(v) - i - 2))
                return
            i += 2 + cnt * width
    if code == 7 and asn4 is not None and len(v) != (8 if asn4 else 6):
        p.bad(w, 'AGGREGATOR of %d octets in %d-octet AS mode' % (len(v), 4 if asn4 else 2))
    if code == 18 and len(v) != 8:
        p.bad(w, 'AS4_AGGREGATOR of %d octets' % len(v))
    if code == 14:
        walk_mp_reach(p, v, addpath)
    if code == 15:
        if len(v) < 3:
            p.bad(w, 'MP_UNREACH of %d octets' % len(v))
        else:
            afi, safi = struct.unpack('!HB', v[:3])
            walk_family(p, 'MP_UNREACH %d/%d' % (afi, safi), afi, safi, v[3:], addpath, withdraw=True)
    if code == 22:
        walk_pmsi(p, v)
    if code == 23:
        walk_tunnel_encaps(p, v)
    if code == 29:
        walk_tlvs(p, 'link-state attribute', v, 2, 2, 3)
    if code == 40:
        walk_tlvs(p, 'prefix-SID attribute', v, 1, 2, 3)


NH_LEN = {(1, 1): (4,), (1, 2): (4,), (1, 4): (4, 16, 32), (1, 128): (12, 24), (1, 133): (0, 4), (1, 73): (4, 16), (2, 1): (16, 32), (2, 4): (16, 32),
          (2, 128): (24, 48), (2, 133): (0, 16), (2, 73): (4, 16), (25, 70): (4, 16), (16388, 71): (4, 16), (16388, 72): (12, 24)}


def walk_mp_reach(p, v, addpath):
    if len(v) < 5:
        p.bad('MP_REACH', 'value of %d octets' % len(v))
        return
    afi, safi, nhl = struct.unpack('!HBB', v[:4])
    w = 'MP_REACH %d/%d' % (afi, safi)
    if 4 + nhl + 1 > len(v):
        p.bad(w, 'next hop length %d does not fit' % nhl)
        return
    if (afi, safi) in NH_LEN and nhl not in NH_LEN[(afi, safi)]:
        p.bad(w, 'next hop length %d (allowed %s)' % (nhl, NH_LEN[(afi, safi)]))
    if v[4 + nhl] != 0:
        p.bad(w, 'reserved octet after the next hop is %d' % v[4 + nhl])
    walk_family(p, w, afi, safi, v[5 + nhl:], addpath)


def walk_labels(p, w, data, i, end, withdraw=False):
    """label stack starting at i inside an NLRI that ends at end; returns offset after the stack or None.
    RFC 8277: the stack ends at the entry with the bottom-of-stack bit; in MP_UNREACH the single label
    field may be 0x800000 or 0x000000."""
    k = 0
    while True:
        if i + 3 > end:
            p.bad(w, 'label stack without bottom-of-stack bit runs past the NLRI')
            return None
        lab = int.from_bytes(data[i:i + 3], 'big')
        i += 3
        k += 1
        if lab & 1 or (withdraw and lab in (0x800000, 0)):
            return i
        if k > 16:
            p.bad(w, 'label stack without bottom-of-stack bit')
            return None


def walk_family(p, w, afi, safi, d, addpath, withdraw=False):
    p.container(3)
    maxbits = 32 if afi == 1 else 128
    if safi in (1, 2) and afi in (1, 2):
        walk_prefixes(p, w, d, maxbits, addpath)
    elif safi in (4, 128) and afi in (1, 2):
        i = 0
        while i < len(d):
            p.container(4)
            if addpath:
                i += 4
            if i >= len(d):
                p.bad(w, 'truncated NLRI')
                return
            bits = d[i]
            nb = (bits + 7) // 8
            end = i + 1 + nb
            if end > len(d):
                p.bad(w, 'NLRI of %d bits needs %d octets, %d remain' % (bits, nb, len(d) - i - 1))
                return
            j = walk_labels(p, w, d, i + 1, end, withdraw)
            if j is None:
                return
            used = (j - i - 1) * 8
            if safi == 128:
                if j + 8 > end:
                    p.bad(w, 'route distinguisher runs past the NLRI (length %d bits)' % bits)
                    return
                rdt = struct.unpack('!H', d[j:j + 2])[0]
                if rdt not in (0, 1, 2):
                    p.bad(w, 'route distinguisher type %d' % rdt)
                used += 64
            plen = bits - used
            if plen < 0 or plen > maxbits:
                p.bad(w, 'prefix length %d after labels%s (NLRI length %d bits)' % (plen, '/RD' if safi == 128 else '', bits))
                return
            i = end
    elif (afi, safi) == (25, 70):
        i = 0
        while i < len(d):
            p.container(4)
            if i + 2 > len(d):
                p.bad(w, 'truncated EVPN route header')
                return
            rt, rl = d[i], d[i + 1]
            rv = d[i + 2:i + 2 + rl]
            if len(rv) != rl:
                p.bad(w, 'EVPN route type %d length %d but %d octets remain' % (rt, rl, len(rv)))
                return
            i += 2 + rl
            ok = None
            if rt == 1:
                ok = rl == 25
            elif rt == 2:
                ok = rl >= 30 and rv[22] == 48 and rv[29] in (0, 32, 128) and rl in (30 + rv[29] // 8 + 3, 30 + rv[29] // 8 + 6)
            elif rt == 3:
                ok = rl >= 13 and rv[12] in (32, 128) and rl == 13 + rv[12] // 8
            elif rt == 4:
                ok = rl >= 19 and rv[18] in (32, 128) and rl == 19 + rv[18] // 8
            elif rt == 5:
                ok = rl in (34, 58)
            if ok is False:
                p.bad(w, 'EVPN route type %d with inconsistent length %d' % (rt, rl))
    elif safi == 133 and afi in (1, 2):
        i = 0
        while i < len(d):
            p.container(4)
            ln = d[i]
            if ln >= 0xf0:
                if i + 2 > len(d):
                    p.bad(w, 'truncated 2-octet flowspec length')
                    return
                ln = struct.unpack('!H', d[i:i + 2])[0] & 0x0fff
                if ln < 240:
                    p.bad(w, 'flowspec NLRI of %d octets uses the 2-octet length form' % ln)
                hdr = 2
            else:
                hdr = 1
            rule = d[i + hdr:i + hdr + ln]
            if len(rule) != ln:
                p.bad(w, 'flowspec NLRI length %d but %d octets remain' % (ln, len(rule)))
                return
            i += hdr + ln
            walk_flowspec_rule(p, w, rule, afi)
    elif (afi, safi) in ((1, 73), (2, 73)):
        i = 0
        while i < len(d):
            bits = d[i]
            # distinguisher + color + endpoint of 4 or 16 octets (which endpoint family suits which AFI is meaning, not structure)
            if bits not in (96, 192):
                p.bad(w, 'SR policy NLRI length %d bits, must be 96 or 192' % bits)
                return
            if i + 1 + bits // 8 > len(d):
                p.bad(w, 'SR policy NLRI truncated')
                return
            i += 1 + bits // 8
    elif afi == 16388:
        i = 0
        while i < len(d):
            p.container(4)
            if i + 4 > len(d):
                p.bad(w, 'truncated BGP-LS NLRI header')
                return
            t, ln = struct.unpack('!HH', d[i:i + 4])
            v = d[i + 4:i + 4 + ln]
            if len(v) != ln:
                p.bad(w, 'BGP-LS NLRI length %d but %d octets remain' % (ln, len(v)))
                return
            i += 4 + ln
            if ln >= 9:
                walk_tlvs(p, w + ' descriptors', v[9:], 2, 2, 5)


def walk_flowspec_rule(p, w, r, afi):
    i = 0
    last = 0
    while i < len(r):
        c = r[i]
        i += 1
        if c <= last:
            p.bad(w, 'flowspec component type %d after %d (must increase)' % (c, last))
        last = c
        if c in (1, 2):
            if i >= len(r):
                p.bad(w, 'truncated flowspec prefix')
                return
            bits = r[i]
            if afi == 1:
                nb = (bits + 7) // 8
                if bits > 32:
                    p.bad(w, 'flowspec prefix length %d' % bits)
                    return
                i += 1
            else:
                if i + 1 >= len(r):
                    p.bad(w, 'truncated flowspec IPv6 prefix')
                    return
                off = r[i + 1]
                if bits > 128 or off > bits:
                    p.bad(w, 'flowspec IPv6 prefix length %d offset %d' % (bits, off))
                    return
                nb = (bits - off + 7) // 8
                i += 2
            if i + nb > len(r):
                p.bad(w, 'flowspec prefix of %d bits needs %d octets, %d remain' % (bits, nb, len(r) - i))
                return
            i += nb
        else:
            while True:
                if i >= len(r):
                    p.bad(w, 'flowspec component %d: operator chain without end-of-list bit' % c)
                    return
                op = r[i]
                vl = 1 << ((op >> 4) & 3)
                if i + 1 + vl > len(r):
                    p.bad(w, 'flowspec component %d: value of %d octets does not fit' % (c, vl))
                    return
                i += 1 + vl
                if op & 0x80:
                    break


def walk_tlvs(p, w, d, tlen, llen, depth):
    i = 0
    while i < len(d):
        p.container(depth)
        if i + tlen + llen > len(d):
            p.bad(w, 'truncated TLV header at offset %d' % i)
            return
        ln = int.from_bytes(d[i + tlen:i + tlen + llen], 'big')
        if i + tlen + llen + ln > len(d):
            p.bad(w, 'TLV type %d length %d but %d octets remain' % (int.from_bytes(d[i:i + tlen], 'big'), ln, len(d) - i - tlen - llen))
            return
        i += tlen + llen + ln


SEG_LEN = {1: (6,), 2: (18,), 3: (6, 10), 4: (18, 22), 5: (10, 14), 6: (10, 14), 7: (22, 26), 8: (34, 38), 9: (6,)}
SUBTLV_LEN = {12: (6,), 13: (2, 6, 18), 6: (6, 10, 22), 7: (2, 6, 18), 14: (3,), 15: (2,)}


def walk_tunnel_encaps(p, v):
    i = 0
    while i < len(v):
        p.container(3)
        if i + 4 > len(v):
            p.bad('tunnel encapsulation', 'truncated tunnel TLV header')
            return
        tt, tl = struct.unpack('!HH', v[i:i + 4])
        tv = v[i + 4:i + 4 + tl]
        if len(tv) != tl:
            p.bad('tunnel encapsulation', 'tunnel type %d length %d but %d octets remain' % (tt, tl, len(tv)))
            return
        i += 4 + tl
        j = 0
        while j < len(tv):
            p.container(4)
            st = tv[j]
            if st < 128:
                if j + 2 > len(tv):
                    p.bad('tunnel encapsulation', 'truncated sub-TLV header')
                    return
                sl, hdr = tv[j + 1], 2
            else:
                if j + 3 > len(tv):
                    p.bad('tunnel encapsulation', 'truncated sub-TLV header (2-octet length)')
                    return
                sl, hdr = struct.unpack('!H', tv[j + 1:j + 3])[0], 3
            sv = tv[j + hdr:j + hdr + sl]
            if len(sv) != sl:
                p.bad('tunnel encapsulation', 'sub-TLV type %d length %d but %d octets remain in the tunnel TLV' % (st, sl, len(sv)))
                return
            j += hdr + sl
            if st in SUBTLV_LEN and sl not in SUBTLV_LEN[st]:
                p.bad('tunnel encapsulation', 'sub-TLV type %d has length %d (allowed %s)' % (st, sl, SUBTLV_LEN[st]))
            if st == 128:
                if sl < 1:
                    p.bad('tunnel encapsulation', 'empty segment list')
                    continue
                k = 1
                while k < len(sv):
                    p.container(5)
                    if k + 2 > len(sv):
                        p.bad('segment list', 'truncated segment sub-TLV header')
                        return
                    gt, gl = sv[k], sv[k + 1]
                    gv = sv[k + 2:k + 2 + gl]
                    if len(gv) != gl:
                        p.bad('segment list', 'segment sub-TLV type %d length %d but %d octets remain' % (gt, gl, len(gv)))
                        return
                    if gt in SEG_LEN and gl not in SEG_LEN[gt]:
                        p.bad('segment list', 'segment sub-TLV type %d has length %d (allowed %s)' % (gt, gl, SEG_LEN[gt]))
                    k += 2 + gl


def walk_pmsi(p, v):
    if len(v) < 5:
        p.bad('PMSI tunnel', 'value of %d octets, fixed part needs 5' % len(v))
        return
    tt = v[1]
    idl = len(v) - 5
    allowed = {0: (0,), 6: (4, 16), 1: (12, 24), 2: None, 3: (8, 32), 4: (8, 32), 5: (8, 32), 7: None}.get(tt)
    if allowed is not None and idl not in allowed:
        p.bad('PMSI tunnel', 'tunnel type %d with identifier of %d octets (allowed %s)' % (tt, idl, allowed))
