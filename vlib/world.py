"""One world = one fresh yabgp agent on the simulated reactor (DESIGN.md 2.2).

Built the way yabgp.agent.prepare_twisted_service builds it (same calls, same
order, minus reactor.run() and the HTTP listener).
"""
import base64
import copy
import json
import struct

from . import env
env.setup()

from twisted.internet import reactor, error  # noqa: E402  (stand-in)
from yabgp.api.app import app  # noqa: E402  registers rest CLI opts: must precede CONF()
from oslo_config import cfg  # noqa: E402
from yabgp import config as yconfig  # noqa: E402
from yabgp.handler import BaseHandler  # noqa: E402
from yabgp.handler.default_handler import DefaultHandler  # noqa: E402
from yabgp.core.factory import BGPPeering  # noqa: E402
from yabgp import agent as yagent  # noqa: E402  (start-up code; logging stays disabled by env.setup)
from yabgp.common import constants as C  # noqa: E402

env.patch_clock()
CONF = cfg.CONF
_parsed = [False]
_overrides = []

REPORTS = ('update_received', 'on_update_error', 'open_received', 'notification_received',
           'route_refresh_received', 'keepalive_received')


class RecHandler(BaseHandler):
    """Records every callback with deep-copied arguments."""

    def __init__(self):
        super(RecHandler, self).__init__()
        self.ev = []
        self.frame_index = None     # set by the world while a peer frame is processed

    def init(self):
        pass

    def _rec(self, name, *args):
        self.ev.append((name, self.frame_index) + tuple(copy.deepcopy(a) for a in args))

    def on_update_error(self, peer, timestamp, msg):
        self._rec('on_update_error', msg)

    def update_received(self, peer, timestamp, msg):
        self._rec('update_received', msg)

    def keepalive_received(self, peer, timestamp):
        self._rec('keepalive_received')

    def open_received(self, peer, timestamp, result):
        self._rec('open_received', result)

    def send_open(self, peer, timestamp, result):
        self._rec('send_open', result)

    def route_refresh_received(self, peer, msg, msg_type):
        self._rec('route_refresh_received', msg, msg_type)

    def notification_received(self, peer, msg):
        self._rec('notification_received', msg)

    def on_connection_lost(self, peer):
        self._rec('on_connection_lost')

    def on_connection_failed(self, peer, msg):
        self._rec('on_connection_failed', msg)

    def on_established(self, peer, msg):
        self._rec('on_established')

    def reports(self):
        return [e for e in self.ev if e[0] in REPORTS]


def _set(group, key, value):
    CONF.set_override(key, value, group=group)
    _overrides.append((group, key))


def configure(local_as, remote_as, local_addr, remote_addr, time_opts, bgp_opts, msg_opts, rest_opts):
    if not _parsed[0]:
        CONF(args=[], project='yabgp', default_config_files=[])
        _parsed[0] = True
    while _overrides:
        g, k = _overrides.pop()
        CONF.clear_override(k, group=g)
    _set('bgp', 'local_as', local_as)
    _set('bgp', 'remote_as', remote_as)
    _set('bgp', 'local_addr', local_addr)
    _set('bgp', 'remote_addr', remote_addr)
    for k, v in (time_opts or {}).items():
        _set('time', k, v)
    for k, v in (bgp_opts or {}).items():
        _set('bgp', k, v)
    for k, v in (msg_opts or {}).items():
        _set('message', k, v)
    for k, v in (rest_opts or {}).items():
        _set('rest', k, v)


def frame(t, body=b''):
    return b'\xff' * 16 + struct.pack('!HB', 19 + len(body), t) + body


def peer_open(asn=65002, hold=90, bid=0x0a000002, ver=4, caps='default', as4=None):
    """A peer OPEN from the harness's own encoder (no yabgp code)."""
    if caps == 'default':
        caps = [(1, struct.pack('!HBB', 1, 0, 1)), (2, b''), (65, struct.pack('!I', as4 if as4 is not None else asn))]
    if caps:
        body = b''.join(struct.pack('!BB', c, len(v)) + v for c, v in caps)
        opt = struct.pack('!BB', 2, len(body)) + body
    else:
        opt = b''
    return frame(1, struct.pack('!BHHIB', ver, asn if asn < 65536 else 23456, hold, bid, len(opt)) + opt)


KEEPALIVE = frame(4)


class World(object):
    def __init__(self, local_as=65001, remote_as=65002, local_addr='10.0.0.1', remote_addr='10.0.0.2',
                 time_opts=None, bgp_opts=None, msg_opts=None, rest_opts=None,
                 handler='rec', chooser=None, max_file_size=None, defer_close=False, setsockopt_fails=False):
        configure(local_as, remote_as, local_addr, remote_addr, time_opts, bgp_opts,
                  dict(msg_opts or {}, **({} if handler == 'default' else {'write_disk': False})), rest_opts)
        reactor.reset()
        reactor.defer_io = bool(defer_close)
        if setsockopt_fails:
            # the kernel refuses TCP_MD5SIG (key longer than 80 octets, or no support)
            reactor.setsockopt_error = OSError(22, 'Invalid argument')
        self.reactor = reactor
        self.chooser = chooser
        self.local_as, self.remote_as = local_as, remote_as
        self.peer_ip = remote_addr
        yconfig.get_bgp_config()
        # the size limit of a log file: the agent's check_msg_config() turns the configured megabytes into bytes and leaves
        # the result as a plain attribute on the group object; a harness that wants a small limit sets that attribute itself
        CONF.message.__dict__.pop('write_msg_max_size', None)
        if handler == 'default':
            yagent.check_msg_config()
        if max_file_size is not None:
            CONF.message.write_msg_max_size = max_file_size
        self.handler = DefaultHandler() if handler == 'default' else RecHandler()
        # the agent's own start-up code (yabgp/agent/__init__.py) on the simulated reactor: handler.init(), the peering,
        # the REST site (a stub here) and the delayed first automatic start
        yagent.prepare_twisted_service(self.handler)
        rc = CONF.bgp.running_config
        self.peering = rc['factory']
        self.boot_call = [c for c in reactor._calls if c.name == 'automatic_start'][-1]
        self.client = app.test_client()
        self.user = CONF.rest.username
        self.password = CONF.rest.password
        self.frames_in = 0
        self.rest_log = []

    # ------------------------------------------------------------ observation
    @property
    def fsm(self):
        return self.peering.fsm

    def now(self):
        return reactor.seconds()

    def connectors(self):
        return list(reactor._attempts)

    def pending(self):
        return [c for c in reactor._attempts if c.state == 'connecting']

    def transports(self):
        return [t for c in reactor._attempts for t in c.transports]

    def open_transports(self):
        return [t for t in self.transports() if t.connected]

    def live(self):
        """Connections the peer can still talk on (connected and not closing)."""
        return [t for t in self.transports() if t.connected and not t.disconnecting]

    def live_count(self):
        """Connectors that are connecting, or connected and not yet closing (C12)."""
        return len(self.pending()) + len(self.live())

    def tracked_transport(self):
        pr = self.fsm.protocol
        return pr.transport if pr is not None else None

    def state_direct(self):
        return C.stateDescr[self.fsm.state]

    def auth(self, user=None, password=None):
        tok = base64.b64encode(('%s:%s' % (user or self.user, password or self.password)).encode()).decode()
        return {'Authorization': 'Basic ' + tok}

    def rest(self, method, path, headers='valid', json_body=None, query=None):
        if headers == 'valid':
            headers = self.auth()
        url = '/v1/peer/%s/%s' % (self.peer_ip, path) if not path.startswith('/') else path
        kw = dict(headers=headers or {})
        if json_body is not None:
            kw['data'] = json.dumps(json_body)
            kw['content_type'] = 'application/json'
        if query:
            kw['query_string'] = query
        resp = self.client.open(url, method=method, **kw)
        try:
            body = resp.get_json(silent=True)
        except Exception:
            body = None
        self.settle()      # the reactor drains what the worker thread queued
        return resp.status_code, body

    def rest_state(self):
        code, body = self.rest('GET', 'state')
        if code != 200 or not body:
            return None
        return body['peer']['fsm']

    def rest_stat(self):
        code, body = self.rest('GET', 'statistic')
        return body if code == 200 else None

    def wire(self, transport=None):
        """[(t, bytes)] written on a transport (default: every transport, in cid order)."""
        if transport is not None:
            return list(transport.written)
        out = []
        for t in self.transports():
            out += [(ts, d, t.connector.cid) for ts, d in t.written]
        return out

    # ---------------------------------------------------------------- actions
    def settle(self):
        if getattr(self, 'lazy', False):
            return          # a '~' event: the rest of the instant is left for the next event (session.apply_event)
        reactor.settle(self.chooser)

    def accept(self, idx=0):
        p = self.pending()
        if not p:
            return None
        tr = p[idx].sim_accept()
        self.settle()
        return tr

    def refuse(self, idx=0):
        p = self.pending()
        if not p:
            return False
        p[idx].sim_refuse()
        self.settle()
        return True

    def tick(self):
        if getattr(self, 'lazy', False):
            return reactor.step_one(self.chooser)
        r = reactor.advance_to_next(self.chooser)
        return r

    def advance(self, dt):
        reactor.advance(dt, self.chooser)

    def deliver(self, data, transport=None, cuts=None):
        """Peer sends data (optionally segmented at the byte offsets in cuts)."""
        tr = transport or (self.live()[0] if self.live() else None)
        if tr is None:
            return False
        pieces = []
        last = 0
        for c in sorted(set(cuts or [])):
            if 0 < c < len(data):
                pieces.append(data[last:c])
                last = c
        pieces.append(data[last:])
        ok = False
        for piece in pieces:
            if not tr.sim_deliver(piece):
                break
            ok = True
            self.settle()
        return ok

    def peer_close(self, transport=None, clean=True):
        tr = transport or (self.open_transports()[0] if self.open_transports() else None)
        if tr is None:
            return False
        tr.sim_peer_close(clean)
        self.settle()
        return True

    def stop(self):
        return self.rest('GET', 'manual-stop')

    def start(self):
        return self.rest('GET', 'manual-start')

    # ------------------------------------------------------ common scenarios
    def establish(self, hold=90, caps='default', asn=None, boot=True):
        """Boot -> accept -> OPEN -> KEEPALIVE.  Returns the transport or None."""
        if boot and not self.pending():
            guard = 0
            while not self.pending() and guard < 10:
                if not self.tick():
                    break
                guard += 1
        tr = self.accept()
        if tr is None:
            return None
        self.deliver(peer_open(asn=self.remote_as if asn is None else asn, hold=hold, caps=caps), tr)
        self.deliver(KEEPALIVE, tr)
        return tr
