"""Deterministic work meter: executed source lines of yabgp code (DESIGN.md 3.5).

sys.monitoring LINE events are enabled only on code objects defined in yabgp.*
modules.  metered(f, budget) counts executed yabgp lines; exceeding the budget
raises OverBudget (a BaseException, so yabgp's catch-all `except Exception`
blocks cannot swallow it) on that and every later line until control is back
in the harness.
"""
import sys
import types

TOOL = 4
E = sys.monitoring.events


class OverBudget(BaseException):
    pass


class Meter(object):
    def __init__(self):
        self.count = 0
        self.budget = None
        self.active = False
        self.installed = False
        self.codes = set()
        self.tripped = False
        # second measure: Python function calls made anywhere (yabgp, standard library, third-party code) while a metered
        # call runs - work done on yabgp's behalf outside its own lines (formatting a traceback, copying, address parsing)
        self.calls = 0
        self.call_budget = None

    def _on_line(self, code, line):
        if not self.active:
            return
        self.count += 1
        if self.budget is not None and self.count > self.budget:
            self.tripped = True
            raise OverBudget('line budget %d exceeded at %s:%d' % (self.budget, code.co_filename, line))

    def _on_call(self, code, offset):
        if not self.active:
            return
        self.calls += 1
        if self.call_budget is not None and self.calls > self.call_budget:
            self.tripped = True
            raise OverBudget('call budget %d exceeded in %s' % (self.call_budget, code.co_filename))

    def _collect(self):
        seen = set()

        def walk_code(co):
            if co in seen:
                return
            seen.add(co)
            for c in co.co_consts:
                if isinstance(c, types.CodeType):
                    walk_code(c)

        def walk_obj(o, depth=0):
            if isinstance(o, (types.FunctionType,)):
                walk_code(o.__code__)
            elif isinstance(o, (classmethod, staticmethod)):
                walk_obj(o.__func__, depth)
            elif isinstance(o, property):
                for f in (o.fget, o.fset, o.fdel):
                    if f is not None:
                        walk_obj(f, depth)
            elif isinstance(o, type) and depth < 3:
                for v in list(vars(o).values()):
                    walk_obj(v, depth + 1)
            elif hasattr(o, '__wrapped__') and depth < 3:
                walk_obj(o.__wrapped__, depth + 1)

        for name, mod in list(sys.modules.items()):
            if mod is None or not (name == 'yabgp' or name.startswith('yabgp.')):
                continue
            for v in list(vars(mod).values()):
                m = getattr(v, '__module__', None)
                if isinstance(v, type) and not (m or '').startswith('yabgp'):
                    continue
                if isinstance(v, types.FunctionType) and not (m or '').startswith('yabgp'):
                    continue
                walk_obj(v)
        return seen

    def install(self):
        """(Re)collect yabgp code objects; call after all yabgp modules are imported."""
        if not self.installed:
            sys.monitoring.use_tool_id(TOOL, 'verif-meter')
            sys.monitoring.register_callback(TOOL, E.LINE, self._on_line)
            sys.monitoring.register_callback(TOOL, E.PY_START, self._on_call)
            self.installed = True
        new = self._collect() - self.codes
        for co in new:
            sys.monitoring.set_local_events(TOOL, co, E.LINE)
        self.codes |= new
        return len(self.codes)

    def run(self, f, *args, budget=None, call_budget=None, **kw):
        """Returns (outcome, value, lines): outcome in 'ok' | 'raised' | 'budget'.  With call_budget, Python function calls
        are counted process-wide for the duration of the call (self.calls) and bounded too."""
        self.count = 0
        self.calls = 0
        self.budget = budget
        self.call_budget = call_budget
        self.tripped = False
        self.active = True
        if call_budget is not None:
            sys.monitoring.set_events(TOOL, E.PY_START)
        try:
            try:
                v = f(*args, **kw)
                out = ('ok', v)
            except OverBudget as e:
                out = ('budget', str(e))
            except Exception as e:
                out = ('raised', e)
            except SystemExit as e:        # a decoder that calls sys.exit(): finishes, by raising
                out = ('raised', e)
        finally:
            self.active = False
            if call_budget is not None:
                sys.monitoring.set_events(TOOL, 0)
        if self.tripped and out[0] != 'budget':
            out = ('budget', 'budget exceeded (exception was swallowed or converted)')
        return out[0], out[1], self.count


METER = Meter()
