"""Value generators for the codec checks (DESIGN.md 4.3).  Values are produced in the decoder's
canonical form (host bits clear, community text as the decoder prints it ...), so that
"decodes to exactly itself" is plain equality after JSON normalisation.  Imports nothing from yabgp."""
import ipaddress
import json
import random

U16 = [0, 1, 255, 256, 32767, 32768, 65534, 65535]
U32 = [0, 1, 32768, 65535, 65536, 2147483647, 2147483648, 4294967294, 4294967295]
ASN2 = [1, 2, 255, 256, 23456, 64512, 65534, 65535]
ASN4 = ASN2 + [65536, 131072, 2147483648, 4200000000, 4294967295]
LABELS = [0, 1, 3, 15, 16, 1000, 524287, 524288, 1048575]
WELL_KNOWN = {0xFFFF0000: 'PLANNED_SHUT', 0xFFFF0001: 'ACCEPT_OWN', 0xFFFF0002: 'ROUTE_FILTER_TRANSLATED_v4',
              0xFFFF0003: 'ROUTE_FILTER_v4', 0xFFFF0004: 'ROUTE_FILTER_TRANSLATED_v6', 0xFFFF0005: 'ROUTE_FILTER_v6',
              0xFFFF029A: 'BLACKHOLE', 0xFFFFFF01: 'NO_EXPORT', 0xFFFFFF02: 'NO_ADVERTISE', 0xFFFFFF03: 'NO_EXPORT_SUBCONFED',
              0xFFFFFF04: 'NOPEER'}


def norm(x):
    """JSON normalisation: tuples = lists, int keys -> str"""
    try:
        return json.loads(json.dumps(x, sort_keys=True, default=lambda o: o.decode('latin1') if isinstance(o, bytes) else repr(o)))
    except TypeError as e:
        # keys of mixed types in one dictionary (json cannot sort them - nor can a REST view that sorts its keys): what the
        # code under test returned is kept visible as a value that equals nothing expected
        return {'__not_json_sortable__': '%s: %r' % (e, x)}


def ipv4(rng, kind=None):
    k = kind or rng.choice(['zero', 'ones', 'rand', 'rand', 'low', 'high'])
    if k == 'zero':
        return '0.0.0.0'
    if k == 'ones':
        return '255.255.255.255'
    if k == 'low':
        return '0.0.0.%d' % rng.randint(1, 255)
    if k == 'high':
        return '%d.0.0.0' % rng.randint(128, 255)
    return str(ipaddress.IPv4Address(rng.getrandbits(32)))


def ipv6(rng, kind=None):
    k = kind or rng.choice(['zero', 'ones', 'rand', 'rand', 'mapped', 'll', 'doc'])
    if k == 'zero':
        return '::'
    if k == 'small':
        # numerically below 2^32: a decoder that guesses the family from the size of the integer prints these as IPv4
        return rng.choice(['::', '::1', '::2', '::ffff'])      # (netaddr prints larger ones in IPv4-compatible dotted form)
    if k == 'ones':
        return 'ffff:ffff:ffff:ffff:ffff:ffff:ffff:ffff'
    if k == 'mapped':
        # the decoder (netaddr) prints IPv4-mapped addresses in dotted form
        return '::ffff:' + str(ipaddress.IPv4Address(rng.getrandbits(32) | 0x01000000))
    if k == 'll':
        return str(ipaddress.IPv6Address((0xfe80 << 112) | rng.getrandbits(64)))
    if k == 'doc':
        return str(ipaddress.IPv6Address((0x20010db8 << 96) | rng.getrandbits(96)))
    return str(ipaddress.IPv6Address(rng.getrandbits(128)))


def prefix4(rng, length=None, fill=None):
    n = rng.randint(0, 32) if length is None else length
    f = fill or rng.choice(['zero', 'ones', 'rand'])
    v = 0 if f == 'zero' else (0xffffffff if f == 'ones' else rng.getrandbits(32))
    mask = ((1 << n) - 1) << (32 - n) if n else 0
    return '%s/%d' % (ipaddress.IPv4Address(v & mask), n)


def prefix6(rng, length=None, fill=None):
    n = rng.randint(0, 128) if length is None else length
    f = fill or rng.choice(['zero', 'ones', 'rand'])
    v = 0 if f == 'zero' else ((1 << 128) - 1 if f == 'ones' else rng.getrandbits(128))
    mask = ((1 << n) - 1) << (128 - n) if n else 0
    return '%s/%d' % (ipaddress.IPv6Address(v & mask), n)


def prefix_list4(rng, nmax=40):
    n = rng.choice([0, 1, 1, 2, 3, 5, 8, nmax])
    out, seen = [], set()
    for _ in range(n):
        p = prefix4(rng)
        if p not in seen:
            seen.add(p)
            out.append(p)
    return out


def mac(rng):
    k = rng.choice(['zero', 'ones', 'rand', 'rand'])
    v = 0 if k == 'zero' else ((1 << 48) - 1 if k == 'ones' else rng.getrandbits(48))
    return '-'.join('%02X' % ((v >> (8 * (5 - i))) & 255) for i in range(6))


def rd(rng):
    """route distinguisher text as yabgp prints it, with its type"""
    t = rng.choice([0, 1, 2])
    if t == 0:
        return '%d:%d' % (rng.choice(ASN2 + [0]), rng.choice(U32))
    if t == 1:
        return '%s:%d' % (ipv4(rng), rng.choice(U16))
    return '%d:%d' % (rng.choice([65536, 4200000000, 4294967295, 131072]), rng.choice(U16))


# ------------------------------------------------------------------ standard attributes (C06)
def as_path(rng, asn4):
    pool = ASN4 if asn4 else ASN2
    nseg = rng.choice([0, 1, 1, 1, 2, 3])
    segs = []
    for _ in range(nseg):
        t = rng.choice([1, 2, 2, 2, 3, 4])
        n = rng.choice([0, 1, 2, 5, 63, 64, 65, 126, 127, 128, 130, 255])
        segs.append([t, [rng.choice(pool) if rng.random() < 0.5 else rng.randint(1, 65535 if not asn4 else 4294967295) for _ in range(n)]])
    return segs


def community_text(rng):
    r = rng.random()
    if r < 0.3:
        return rng.choice(sorted(WELL_KNOWN.values()))
    hi, lo = rng.choice(U16), rng.choice(U16)
    v = (hi << 16) | lo
    return WELL_KNOWN.get(v, '%d:%d' % (hi, lo))


def large_community_text(rng):
    return '%d:%d:%d' % (rng.choice(U32), rng.choice(U32), rng.choice(U32))


EXT_KINDS = ['rt0', 'rt1', 'rt2', 'ro0', 'ro1', 'ro2', 'color', 'encap', 'redirect-vrf', 'redirect-nh', 'traffic-rate',
             'traffic-action', 'traffic-marking', 'dmzlink-bw', 'esi-label', 'mac-mobility', 'es-import', 'router-mac']


def ext_community(rng, kind=None):
    """semantic extended community: dict(kind, fields...) (see refenc.ext_community_bytes / ext_text / ext_construct)"""
    k = kind or rng.choice(EXT_KINDS)
    if k in ('rt0', 'ro0', 'redirect-vrf', 'dmzlink-bw'):
        return dict(kind=k, asn=rng.choice(ASN2 + [0]), an=rng.choice(U32))
    if k in ('rt1', 'ro1'):
        return dict(kind=k, ip=ipv4(rng), an=rng.choice(U16))
    if k in ('rt2', 'ro2'):
        return dict(kind=k, asn=rng.choice([65536, 131072, 4200000000, 4294967295, 1, 65535]), an=rng.choice(U16))
    if k in ('color', 'encap'):
        return dict(kind=k, value=rng.choice(U32) if k == 'color' else rng.choice([0, 1, 8, 11, 255, 256, 65535]))
    if k == 'redirect-nh':
        return dict(kind=k, ip=ipv4(rng), copy=rng.choice([0, 1, 0, 1, 2, 255, 32768, 65535]))    # 16-bit local administrator, bit 0 = copy
    if k == 'traffic-rate':
        return dict(kind=k, asn=rng.choice(ASN2 + [0]), rate=rng.choice([0, 1, 100, 1000, 65536, 16777216, 1000000, 0.5, 1.5, 1000.25, 0.10000000149011612, 12500000.0]))    # IEEE single precision values, with and without a fraction
    if k == 'traffic-action':
        return dict(kind=k, s=rng.choice([0, 1]), t=rng.choice([0, 1]))
    if k == 'traffic-marking':
        return dict(kind=k, dscp=rng.choice([0, 1, 46, 63]))
    if k == 'esi-label':
        return dict(kind=k, flag=rng.choice([0, 1]), label=rng.choice(LABELS))
    if k == 'mac-mobility':
        return dict(kind=k, flag=rng.choice([0, 1]), seq=rng.choice(U32))
    if k in ('es-import', 'router-mac'):
        return dict(kind=k, mac=mac(rng))
    raise ValueError(k)


def std_attrs(rng, asn4, only=None, with_ext=True):
    """dict attr-code -> canonical decoded value (ext communities as semantic dicts under key 16)"""
    a = {}
    codes = [1, 2, 3, 4, 5, 6, 7, 8, 9, 10, 32] + ([16] if with_ext else [])
    chosen = only if only is not None else [c for c in codes if rng.random() < 0.5]
    for c in chosen:
        if c == 1:
            a[1] = rng.choice([0, 1, 2])
        elif c == 2:
            a[2] = as_path(rng, asn4)
        elif c == 3:
            a[3] = ipv4(rng)
        elif c == 4:
            a[4] = rng.choice(U32)
        elif c == 5:
            a[5] = rng.choice(U32)
        elif c == 6:
            a[6] = ''
        elif c == 7:
            a[7] = [rng.choice(ASN4 if asn4 else ASN2), ipv4(rng)]
        elif c == 8:
            a[8] = [community_text(rng) for _ in range(rng.choice([0, 1, 2, 5, 63]))]
        elif c == 9:
            a[9] = ipv4(rng)
        elif c == 10:
            a[10] = [ipv4(rng) for _ in range(rng.choice([0, 1, 2, 5, 63]))]
        elif c == 32:
            a[32] = [large_community_text(rng) for _ in range(rng.choice([0, 1, 2, 5, 21]))]
        elif c == 16:
            a[16] = [ext_community(rng) for _ in range(rng.choice([1, 1, 2, 5, 31]))]
    return a


# ------------------------------------------------------------------ multiprotocol families (C07)
def label_stack(rng, nmax=3):
    n = rng.choice([1, 1, 1, 2, 3][:nmax + 2])
    st = [rng.choice(LABELS) for _ in range(n)]
    # label 0 at the bottom of the stack touches a known finding (encoded without the S bit): keep its share small
    if st[-1] == 0 and rng.random() < 0.8:
        st[-1] = 16
    return st


def esi(rng):
    t = rng.choice([0, 1, 2, 3, 4, 5])
    if t == 0:
        return {'type': 0, 'value': rng.choice([0, 1, 255, 256, (1 << 72) - 1, rng.getrandbits(72)])}
    if t == 1:
        return {'type': 1, 'value': {'ce_mac_addr': mac(rng), 'ce_port_key': rng.choice(U16)}}
    if t == 2:
        return {'type': 2, 'value': {'rb_mac_addr': mac(rng), 'rb_priority': rng.choice(U16)}}
    if t == 3:
        return {'type': 3, 'value': {'sys_mac_addr': mac(rng), 'ld_value': rng.choice([0, 1, 255, 256, 65535, 65536, 16777215])}}
    if t == 4:
        return {'type': 4, 'value': {'router_id': rng.choice(U32), 'ld_value': rng.choice(U32)}}
    return {'type': 5, 'value': {'as_num': rng.choice(U32), 'ld_value': rng.choice(U32)}}


def evpn_route(rng, rtype=None):
    t = rtype or rng.choice([1, 2, 3, 4])
    if t == 1:
        v = {'rd': rd(rng), 'esi': esi(rng), 'eth_tag_id': rng.choice(U32), 'label': [rng.choice(LABELS)]}
    elif t == 2:
        v = {'rd': rd(rng), 'esi': esi(rng), 'eth_tag_id': rng.choice(U32), 'mac': mac(rng), 'label': label_stack(rng, 2)}
        r = rng.random()
        if r < 0.4:
            v['ip'] = ipv4(rng, rng.choice(['rand', 'ones', 'low']))
        elif r < 0.7:
            v['ip'] = ipv6(rng, rng.choice(['rand', 'doc', 'll', 'small']))
    elif t == 3:
        v = {'rd': rd(rng), 'eth_tag_id': rng.choice(U32), 'ip': ipv4(rng, 'rand') if rng.random() < 0.6 else ipv6(rng, rng.choice(['doc', 'doc', 'small']))}
    else:
        v = {'rd': rd(rng), 'esi': esi(rng), 'ip': ipv4(rng, 'rand') if rng.random() < 0.6 else ipv6(rng, rng.choice(['doc', 'doc', 'small']))}
    return {'type': t, 'value': v}


def evpn_route5(rng):
    """EVPN IP prefix route (type 5), decode side only: yabgp's encoder takes another shape of 'esi' for this type"""
    six = rng.random() < 0.5
    if six:
        n = rng.choice([0, 1, 3, 7, 32, 33, 64, 127, 128])
        pfx = prefix6(rng, n, rng.choice(['rand', 'ones', 'zero']))
        gw = ipv6(rng, rng.choice(['doc', 'rand', 'll', 'small']))
    else:
        pfx = prefix4(rng, rng.choice([0, 1, 8, 24, 25, 32]), 'rand')
        gw = ipv4(rng, 'rand')
    return {'type': 5, 'value': {'rd': rd(rng), 'esi': esi(rng), 'eth_tag_id': rng.choice(U32), 'prefix': pfx, 'gateway': gw, 'label': [rng.choice(LABELS)]}}


def evpn_route5c(rng):
    """EVPN IP prefix route in the shape yabgp's encoder takes (the ESI as the number 0: all-zero segment identifier)"""
    r = evpn_route5(rng)
    r['value']['esi'] = 0
    return r


FS_NUMERIC = [3, 4, 5, 6, 7, 8, 10, 11]       # components with numeric operators (9 = tcp flags, 12 = fragment: bitmask)


def fs_value(rng, width=None):
    w = width or rng.choice([1, 2, 4])
    # values that need exactly 3 octets (65536..16777215) are documented as unsupported by the encoder: see fs_unsupported()
    return rng.choice({1: [0, 1, 6, 17, 254, 255], 2: [256, 1024, 8080, 65535], 4: [16777216, 2147483648, 4294967295]}[w])


def fs_ops(rng):
    """operator text in the decoder's form: '=80', '>=1024&<=2048', '=1|=2'"""
    parts = []
    for i in range(rng.choice([1, 1, 2, 3])):
        op = rng.choice(['=', '>', '<', '>=', '<='])
        parts.append(op + str(fs_value(rng)))
    return '|'.join(parts)


def flowspec_rule(rng):
    r = {}
    if rng.random() < 0.05:
        # a long rule: 200..800 octets, around and beyond the 240-octet boundary of the 1-/2-octet NLRI length form
        n = rng.choice([100, 112, 116, 117, 118, 119, 120, 121, 122, 123, 124, 125, 126, 130, 200, 400])
        return {1: prefix4(rng, 24), 5: '|'.join('=%d' % rng.choice([1, 6, 17, 80, 255]) for _ in range(n))}
    if rng.random() < 0.8:
        r[1] = prefix4(rng, rng.choice([0, 1, 7, 8, 9, 16, 17, 24, 25, 31, 32]))
    if rng.random() < 0.5:
        r[2] = prefix4(rng, rng.choice([0, 8, 16, 24, 32, 13]))
    for c in FS_NUMERIC:
        if rng.random() < 0.25:
            r[c] = fs_ops(rng)
    if not r:
        r[1] = prefix4(rng, 24)
    return r


def mp_value(rng, family, withdraw=False, nmax=20):
    """attribute 14 (or 15 with withdraw=True) value in yabgp's result shape"""
    n = rng.choice([1, 1, 2, 3, nmax])
    key = 'withdraw' if withdraw else 'nlri'
    if family == 'ipv6':
        ps = []
        for _ in range(n):
            p = prefix6(rng, rng.choice([None, 0, 1, 7, 8, 9, 63, 64, 65, 127, 128]))
            if p not in ps:
                ps.append(p)
        v = {'afi_safi': [2, 1], key: ps}
        if not withdraw:
            v['nexthop'] = ipv6(rng, rng.choice(['doc', 'rand', 'mapped', 'small']))
            if rng.random() < 0.4:
                v['linklocal_nexthop'] = ipv6(rng, 'll')
    elif family in ('ipv4_lu', 'ipv6_lu'):
        six = family == 'ipv6_lu'
        routes = []
        for _ in range(n):
            routes.append({'prefix': (prefix6 if six else prefix4)(rng, rng.choice([None, 0, 1, 8, 24, 25, 32] + ([64, 127, 128] if six else []))),
                           'label': label_stack(rng)})
        v = {'afi_safi': [2 if six else 1, 4], key: routes}
        if not withdraw:
            v['nexthop'] = ipv6(rng, rng.choice(['doc', 'doc', 'small', 'mapped', 'mapped'])) if six else \
                (ipv4(rng, 'rand') if rng.random() < 0.8 else ipv6(rng, rng.choice(['doc', 'mapped'])))
    elif family in ('vpnv4', 'vpnv6'):
        six = family == 'vpnv6'
        routes = []
        for _ in range(n):
            routes.append({'rd': rd(rng), 'prefix': (prefix6 if six else prefix4)(rng, rng.choice([None, 0, 1, 8, 24, 25, 32] + ([60, 64, 127, 128] if six else []))),
                           'label': [524288] if withdraw else label_stack(rng, 1)[:1]})
        v = {'afi_safi': [2 if six else 1, 128], key: routes}
        if not withdraw:
            v['nexthop'] = {'rd': '0:0' if rng.random() < 0.5 else '%d:%d' % (rng.choice(ASN2 + [0, 1]), rng.choice(U32 + [1, 7])), 'str': ipv6(rng, rng.choice(['mapped', 'mapped', 'doc', 'small'])) if six else ipv4(rng, 'rand')}
    elif family == 'evpn':
        v = {'afi_safi': [25, 70], key: [evpn_route(rng) for _ in range(min(n, 6))]}
        if not withdraw:
            v['nexthop'] = ipv4(rng, 'rand') if rng.random() < 0.7 else ipv6(rng, rng.choice(['doc', 'mapped', 'rand']))
    elif family == 'flowspec':
        v = {'afi_safi': [1, 133], key: [flowspec_rule(rng) for _ in range(min(n, 5))]}
        if not withdraw:
            v['nexthop'] = '' if rng.random() < 0.7 else ipv4(rng, 'rand')
    else:
        raise ValueError(family)
    return v


FAMILIES = ['ipv6', 'ipv4_lu', 'ipv6_lu', 'vpnv4', 'vpnv6', 'evpn', 'flowspec']
