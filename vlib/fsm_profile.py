"""Reference session profile: RFC 4271 section 8 restricted to what an active-only speaker can
experience (DESIGN.md 3.3).  Written from the RFC and the property statements, not from yabgp.

The model consumes the same events as the implementation and returns, per step, the SET of allowed
outcomes.  An outcome = (frames written, connection closed by the agent, new connection attempts,
next model state).  The set is a singleton where the RFC / the property is prescriptive and wider
where the RFC is silent (six documented rows).
"""
import itertools

IDLE, CONNECT, OPENSENT, OPENCONFIRM, ESTABLISHED = 'IDLE', 'CONNECT', 'OPENSENT', 'OPENCONFIRM', 'ESTABLISHED'
LARGE_HOLD = 240.0
TCP_TIMEOUT = 30.0
TOL = 1e-6
ANY = '*'


class Alt(object):
    """One allowed outcome."""

    def __init__(self, writes, closed, attempts, apply, name=''):
        self.writes, self.closed, self.attempts, self.apply, self.name = writes, closed, attempts, apply, name

    def matches(self, writes, closed, attempts):
        if self.closed != closed or self.attempts != attempts or len(self.writes) != len(writes):
            return False
        for a, b in zip(self.writes, writes):
            if len(a) != len(b) or any(p != q and p != ANY for p, q in zip(a, b)):
                return False
        return True

    def __repr__(self):
        return '%s%s%s%s' % (self.writes, ' +close' if self.closed else '', ' +%dconnect' % self.attempts if self.attempts else '',
                             (' (%s)' % self.name) if self.name else '')


class Model(object):
    def __init__(self, hold=180, idle_hold=30, connect_retry=30, boot=15, remote_as=65002):
        self.cfg_hold, self.idle_hold, self.connect_retry, self.remote_as = hold, idle_hold, connect_retry, remote_as
        self.now = 0.0
        self.st = IDLE
        self.stopped = False
        self.boot_at = float(boot)
        self.restart_at = None
        self.attempt = None      # dict(timeout_at, retry_at)
        self.conn = None         # dict(hold_at, ka_at, H)

    def key(self):
        """Abstract model state for fingerprints."""
        def rel(x):
            return None if x is None else round(x - self.now, 3)
        return (self.st, self.stopped, rel(self.boot_at), rel(self.restart_at),
                None if not self.attempt else (rel(self.attempt['timeout_at']), rel(self.attempt['retry_at'])),
                None if not self.conn else (rel(self.conn['hold_at']), rel(self.conn['ka_at']), self.conn['H']))

    # ------------------------------------------------------------------ state changes
    def _go_idle(self, restart=True):
        self.st = IDLE
        self.conn = None
        self.attempt = None
        self.restart_at = (self.now + self.idle_hold) if (restart and not self.stopped) else None

    def _start_attempt(self):
        self.st = CONNECT
        self.conn = None
        self.attempt = dict(timeout_at=self.now + TCP_TIMEOUT, retry_at=self.now + self.connect_retry)
        self.restart_at = None

    # ------------------------------------------------------------------ time
    def deadlines(self):
        d = []
        if self.boot_at is not None:
            d.append((self.boot_at, 'boot'))
        if self.restart_at is not None:
            d.append((self.restart_at, 'restart'))
        if self.attempt:
            d.append((self.attempt['timeout_at'], 'tcp_timeout'))
            if self.attempt['retry_at'] is not None:
                d.append((self.attempt['retry_at'], 'retry'))
        if self.conn:
            if self.conn.get('hold_at') is not None:
                d.append((self.conn['hold_at'], 'hold'))
            if self.conn.get('ka_at') is not None:
                d.append((self.conn['ka_at'], 'ka'))
        return sorted(d)

    def snapshot(self):
        return (self.now, self.st, self.stopped, self.boot_at, self.restart_at,
                dict(self.attempt) if self.attempt else None, dict(self.conn) if self.conn else None)

    def restore(self, s):
        (self.now, self.st, self.stopped, self.boot_at, self.restart_at, a, c) = s
        self.attempt = dict(a) if a else None
        self.conn = dict(c) if c else None

    def _fire(self, kind, out):
        """Fire one own deadline; out = [writes, closed, attempts] accumulated."""
        if kind in ('boot', 'restart'):
            if kind == 'boot':
                self.boot_at = None
            else:
                self.restart_at = None
            if self.st == IDLE and not self.stopped:
                self._start_attempt()
                out[2] += 1
        elif kind == 'tcp_timeout':
            self._go_idle()
        elif kind == 'retry':
            # Connect + ConnectRetryTimer_Expires: drop the attempt, restart the timer, try again
            self._start_attempt()
            out[2] += 1
        elif kind == 'hold':
            out[0].append((3, 4, 0))
            out[1] = True
            self._go_idle()
        elif kind == 'ka':
            out[0].append((4,))
            self.conn['ka_at'] = self.now + self.conn['H'] / 3.0

    def time_alts(self, t, limit=24):
        """All outcomes of letting time run to t, over the orders of same-instant deadlines.
        Returns list of (writes, closed, attempts, snapshot_after)."""
        results = []
        start = self.snapshot()

        def rec(out):
            if len(results) >= limit:
                return
            d = [x for x in self.deadlines() if x[0] <= t + TOL]
            if not d:
                self.now = max(self.now, t)
                results.append((list(out[0]), out[1], out[2], self.snapshot()))
                return
            first = d[0][0]
            same = [x for x in d if x[0] <= first + TOL]
            for x in same:
                snap = self.snapshot()
                o2 = [list(out[0]), out[1], out[2]]
                self.now = max(self.now, x[0])
                self._fire(x[1], o2)
                rec(o2)
                self.restore(snap)

        rec([[], False, 0])
        self.restore(start)
        return results

    # ------------------------------------------------------------------ events
    def _err(self, code, sub, name=''):
        def ap():
            self._go_idle()
        return Alt([(3, code, sub)], True, 0, ap, name)

    def _ignore(self, name='ignored'):
        return Alt([], False, 0, lambda: None, name)

    def ev_accept(self):
        def ap():
            self.attempt = None
            self.st = OPENSENT
            self.conn = dict(hold_at=self.now + LARGE_HOLD, ka_at=None, H=None)
        return [Alt([(1,)], False, 0, ap, 'OPEN sent')]

    def ev_refuse(self):
        return [Alt([], False, 0, self._go_idle, 'connect failed')]

    def ev_peerclose(self):
        return [Alt([], False, 0, self._go_idle, 'peer closed')]

    def ev_stop(self):
        closed = self.conn is not None

        def ap():
            self.stopped = True
            self._go_idle(restart=False)
        if self.st == ESTABLISHED:
            return [Alt([(3, 6, ANY)], closed, 0, ap, 'Cease')]
        if self.st in (OPENSENT, OPENCONFIRM):
            return [Alt([], closed, 0, ap, 'stop'), Alt([(3, 6, ANY)], closed, 0, ap, 'stop with Cease')]
        return [Alt([], closed, 0, ap, 'stop')]

    def ev_start(self):
        if self.st == IDLE:
            def ap():
                self.stopped = False
                self._start_attempt()
            return [Alt([], False, 1, ap, 'manual start')]
        return [self._ignore('start ignored outside Idle')]

    def open_problem(self, ver, asn, hold, malformed=False, unsup_opt=False):
        """the problems of a peer OPEN, as a list of (code, sub-code): RFC 4271 6.2 names the answer to each and no order of
        precedence, so an OPEN with several is answered with ONE NOTIFICATION for any one of them.  An unsupported version
        comes first (nothing else of such a message can be relied on)."""
        if ver != 4:
            return [(2, 1)]
        out = []
        if unsup_opt:
            out.append((2, 4))       # an optional parameter that is not recognized (RFC 4271 6.2)
        if malformed:
            out.append((2, 0))       # recognized optional parameter, malformed (RFC 4271 6.2)
        if asn != self.remote_as:
            out.append((2, 2))
        if hold in (1, 2):
            out.append((2, 6))
        return out

    def ev_msg(self, meta):
        s = self.st
        kind = meta['kind']
        assert self.conn is not None, (kind, s)
        if kind == 'BADMARK':
            return [self._err(1, 1)]
        if kind == 'BADLEN':
            return [self._err(1, 2)]
        if kind == 'BADTYPE':
            return [self._err(1, 3)]
        if kind == 'RR':
            return [self._ignore('route-refresh ignored by the state machine')]
        if kind == 'OPEN':
            bad = self.open_problem(meta['ver'], meta['asn'], meta['hold'], meta.get('malformed', False), meta.get('unsup_opt', False))
            if s == OPENSENT:
                if bad:
                    return [self._err(b[0], b[1]) for b in bad]
                H = min(self.cfg_hold, meta['hold'])

                def ap():
                    self.st = OPENCONFIRM
                    self.conn = dict(H=H, hold_at=(self.now + H) if H else None, ka_at=(self.now + H / 3.0) if H else None)
                return [Alt([(4,)], False, 0, ap, 'OPEN accepted')]
            if s == OPENCONFIRM:
                if bad:
                    return [self._ignore()] + [self._err(b[0], b[1]) for b in bad]
                return [self._ignore('OPEN in OpenConfirm, no collision possible')]
            if s == ESTABLISHED:
                alts = [self._err(5, ANY)]
                if bad:
                    alts += [self._err(b[0], b[1]) for b in bad]
                else:
                    alts.append(self._ignore())
                return alts
        if kind == 'KA':
            if s == OPENSENT:
                return [self._err(5, ANY)]

            def ap():
                self.st = ESTABLISHED
                if self.conn['H']:
                    self.conn['hold_at'] = self.now + self.conn['H']
            return [Alt([], False, 0, ap, 'keepalive')]
        if kind == 'UPD':
            if s in (OPENSENT, OPENCONFIRM):
                return [self._err(5, ANY)]

            def ap():
                if self.conn['H']:
                    self.conn['hold_at'] = self.now + self.conn['H']
            return [Alt([], False, 0, ap, 'update')]
        if kind == 'UPDH':
            # a well-framed UPDATE (>= 23 octets) with a hostile body: it is an UPDATE that arrived (hold timer restarts, C03)
            # unless the agent treats it as an UPDATE message error and ends the session (RFC 4271 6.3)
            if s in (OPENSENT, OPENCONFIRM):
                return [self._err(5, ANY)]

            def ap():
                if self.conn['H']:
                    self.conn['hold_at'] = self.now + self.conn['H']
            return [Alt([], False, 0, ap, 'update'), self._err(3, ANY)]
        if kind == 'NOTI':
            alts = [Alt([], True, 0, self._go_idle, 'notification')]
            if s == OPENSENT:
                alts.append(Alt([(3, 5, ANY)], True, 0, self._go_idle, 'notification answered with FSM error'))
            return alts
        raise AssertionError((kind, s))
