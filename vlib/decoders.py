"""Discovery of every decoder entry point of yabgp.message.* from the running code (DESIGN.md C11)."""
import importlib
import inspect
import itertools
import pkgutil
import sys

from . import env
env.setup()

METHODS = ('parse', 'unpack', 'parse_nlri', 'parse_mpls_label_stack', 'parse_rd', 'parse_prefix_list', 'parse_attributes')
VARIANTS = {
    'asn4': [False, True],
    'addpath': [False, True],
    'iswithdraw': [False, True],
    'afi_add_path': [None, {'ipv4': True, 'ipv6': True, 'ipv4_lu': True, 'ipv6_lu': True, 'vpnv4': True, 'vpnv6': True}],
    'pro_id': [1, 2, 3, 6],
    'bgpls_pro_id': [None, 1, 2, 3, 6],
    'evpn_overlay': [False, {'evpn': True, 'encap_ec': True, 'encap_value': 8}],
    'nlri_type': [1, 2, 3, 4, 6],
    't': [None],
}
_cache = []


def import_all():
    import yabgp.message
    for m in pkgutil.walk_packages(yabgp.message.__path__, 'yabgp.message.'):
        if '.tests' in m.name:
            continue
        importlib.import_module(m.name)


def discover():
    """-> list of (name, f) where f(data: bytes) calls one decoder variant."""
    if _cache:
        return _cache
    import_all()
    out = []
    for modname, mod in sorted(sys.modules.items()):
        if mod is None or not modname.startswith('yabgp.message'):
            continue
        for cn, c in sorted(vars(mod).items()):
            if not (inspect.isclass(c) and c.__module__ == modname):
                continue
            for mn in METHODS:
                raw = None
                for k in c.__mro__:
                    # inherited decoders count too when the subclass parametrises them (AFI / SAFI / TYPE ...)
                    if mn in vars(k) and k.__module__.startswith('yabgp.'):
                        raw = vars(k)[mn]
                        break
                if raw is None:
                    continue
                if mn not in vars(c) and not any(isinstance(v, (int, str, bytes)) for a, v in vars(c).items() if not a.startswith('__')):
                    continue
                if isinstance(raw, (classmethod, staticmethod)):
                    raw_f = raw.__func__
                else:
                    raw_f = raw
                raw = raw_f if not isinstance(vars(k)[mn], (classmethod, staticmethod)) else vars(k)[mn]
                is_inst = inspect.isfunction(raw)
                try:
                    bound = getattr(c(), mn) if is_inst else getattr(c, mn)
                    sig = inspect.signature(bound)
                except Exception:
                    continue
                params = list(sig.parameters.values())
                if any(p.kind == p.VAR_POSITIONAL for p in params):
                    continue
                names = [p.name for p in params]
                data_idx = 1 if names and names[0] == 't' else 0
                others = [n for i, n in enumerate(names) if i != data_idx]
                choices = [VARIANTS.get(n, [params[names.index(n)].default if params[names.index(n)].default is not inspect._empty else None])
                           for n in others]
                short = modname.replace('yabgp.message.', '') + '.' + cn + '.' + mn
                for combo in itertools.product(*choices):
                    kw = dict(zip(others, combo))
                    label = short + ''.join('[%s=%s]' % (k, 'set' if isinstance(v, dict) else v) for k, v in kw.items()
                                            if len(VARIANTS.get(k, [0])) > 1)
                    out.append((label, _mk(c, mn, is_inst, names[data_idx], kw)))
    _cache.extend(out)
    return out


def _mk(c, mn, is_inst, data_name, kw):
    if is_inst:
        def f(data):
            return getattr(c(), mn)(**dict(kw, **{data_name: data}))
    else:
        m = getattr(c, mn)

        def f(data):
            return m(**dict(kw, **{data_name: data}))
    return f
