"""Process set-up shared by every check: import paths, stand-ins, virtual clock.

Nothing is installed or cached: yabgp is imported from the working tree named by
VERIF_REPO (default /repo) and the import is asserted to resolve there.
"""
import os
import sys

VERIF = os.path.dirname(os.path.dirname(os.path.abspath(__file__)))
REPO = os.environ.get('VERIF_REPO', '/repo')
DEPS = os.path.join(VERIF, '.deps')
EPOCH = 1700000000.0          # realistic wall-clock base for time.time()

_ready = False
MONO_OFFSET = [0.0]


def real_monotonic():
    import time
    return getattr(time, '_real_monotonic', time.monotonic)()


CLOCK_OFFSET = [0.0]       # added to the virtual clock: lets a harness keep wall time monotonic across agent restarts


def setup():
    global _ready
    if _ready:
        return
    sys.dont_write_bytecode = True
    os.environ.setdefault('PYTHONDONTWRITEBYTECODE', '1')
    # the guard for repository hooks (none exist today; see DESIGN.md 7)
    os.environ.setdefault('YABGP_VERIF', '1')
    for p in (os.path.join(VERIF, 'shims'), REPO, VERIF):
        while p in sys.path:
            sys.path.remove(p)
    sys.path.insert(0, VERIF)
    sys.path.insert(0, REPO)
    sys.path.insert(0, os.path.join(VERIF, 'shims'))
    if os.path.isdir(DEPS) and DEPS not in sys.path:
        sys.path.append(DEPS)
    import logging
    logging.disable(logging.CRITICAL)
    import yabgp
    here = os.path.realpath(os.path.dirname(yabgp.__file__))
    want = os.path.realpath(os.path.join(REPO, 'yabgp'))
    if here != want:
        raise RuntimeError('yabgp imported from %s, expected %s' % (here, want))
    _ready = True


def patch_clock():
    """time.time() := EPOCH + virtual reactor time (harness process only)."""
    import time
    from twisted.internet import reactor
    if getattr(time, '_verif_patched', False):
        return
    time._real_time = time.time
    time.time = lambda: EPOCH + CLOCK_OFFSET[0] + reactor.seconds()
    # the monotonic clock of the agent is virtual too: seconds since 'boot' (MONO_OFFSET moves the boot), small numbers that
    # cross powers of ten.  The harness itself keeps the real one (real_monotonic) for its time boxes.
    time._real_monotonic = time.monotonic
    time.monotonic = lambda: 7.5 + MONO_OFFSET[0] + reactor.seconds()
    time._verif_patched = True
