"""Boundary monitors shared by the session-level checks (DESIGN.md 3.4): connection ledger (C12),
operator-stop monitor (C13), statistics conservation (C18)."""
from .session import Monitor, parse_event, MSGS
from .world import reactor
from . import wire


class LedgerMonitor(Monitor):
    """C12: at most one connection or attempt; writes go to the tracked connection."""

    def __init__(self, w):
        Monitor.__init__(self, w)
        self.max_live = 0
        self.attempts = 0
        self.late_accepts = 0
        self.writes = 0
        self.cur = None
        reactor.connect_observers.append(self.on_connect)
        reactor.write_observers.append(self.on_write)

    def on_connect(self, connector):
        self.attempts += 1
        pend = [c for c in reactor._attempts if c.state == 'connecting']
        live = self.w.live()
        if pend or live:
            what = 'pending' if pend else 'connected'
            trig = self.trigger()
            self.report('second-attempt', 'connectTCP while %d pending / %d connected exist; trigger %s; fsm=%s'
                        % (len(pend), len(live), trig, self.w.state_direct()),
                        ['existing:' + what, 'trigger:' + trig])

    def trigger(self):
        name = parse_event(self.cur)[0] if self.cur else '?'
        return name

    def on_write(self, tr, data):
        self.writes += 1
        if tr is not self.w.tracked_transport():
            self.report('write-untracked', 'write of type %s to connection %d which the FSM does not track (event %s)'
                        % (data[18] if len(data) > 18 else '?', tr.connector.cid, self.cur),
                        ['trigger:' + self.trigger()])

    def before(self, ev):
        self.cur = ev
        name, idx, _ = parse_event(ev)
        if name == 'ACCEPT':
            p = self.w.pending()
            if idx < len(p) and (len(p) > 1 or p[idx].t_start < self.w.now()):
                self.late_accepts += 1

    def after(self, ev, info):
        n = self.w.live_count()
        prev, self.prev_live = getattr(self, 'prev_live', 0), n
        self.max_live = max(self.max_live, n)
        if n > 1 and prev <= 1:
            self.report('two-live', '%d live connectors after %s: %s' % (
                n, ev, [(c.cid, c.state) for c in self.w.connectors() if c.state != 'disconnected']),
                ['trigger:' + self.trigger()])

    def final(self, silent=300.0):
        """300 s of virtual time with a silent peer, then look for leaked connections."""
        self.cur = 'FINAL'
        self.w.advance(silent)
        tracked = self.w.tracked_transport()
        for t in self.w.open_transports():
            if t is not tracked and not t.disconnecting:
                self.report('leaked-connection', 'connection %d still open after %ss, not referenced by the FSM, '
                            'closed by nobody' % (t.connector.cid, silent), [])
        self.after('FINAL', None)


class StopMonitor(Monitor):
    """C13: operator stop is final until operator start."""

    def __init__(self, w):
        Monitor.__init__(self, w)
        self.stopped = False
        self.pre = None
        self.nw = 0
        self.na = 0
        self.stops_by_state = {}
        self.post_stop_events = 0
        self.starts_checked = 0
        self.cur = None
        reactor.connect_observers.append(self.on_connect)
        reactor.write_observers.append(self.on_write)
        self.writes_now = []
        self.connects_now = 0

    def on_connect(self, c):
        self.connects_now += 1

    def on_write(self, tr, data):
        self.writes_now.append((tr, data))

    def before(self, ev):
        self.cur = ev
        self.writes_now = []
        self.connects_now = 0
        name = parse_event(ev)[0]
        if name in ('STOP', 'START'):
            self.pre = dict(state=self.w.rest_state(), tracked=self.w.tracked_transport(),
                            live=list(self.w.live()), pending=len(self.w.pending()), stopped=self.stopped)
            self.writes_now = []
            self.connects_now = 0

    def after(self, ev, info):
        name = parse_event(ev)[0]
        w = self.w
        if name == 'STOP':
            code, body = info['applied']
            ok = code == 200 and body and body.get('status') is True
            st = self.pre['state']
            self.stops_by_state[st] = self.stops_by_state.get(st, 0) + 1
            feats = ['pre:' + str(st), 'pending:%d' % min(self.pre['pending'], 1)]
            if not ok:
                self.report('stop-refused', 'manual-stop answered %s %s' % (code, body), feats)
                return
            self.stopped = True
            frames = [wire.summarize(f) for f in wire.frames_of_writes([(0, d) for _, d in self.writes_now])]
            if st == 'ESTABLISHED':
                if not any(f[0] == 3 and f[1] == 6 for f in frames):
                    self.report('stop-no-cease', 'stop in Established wrote %s, no Cease' % (frames,), feats)
            if any(f[0] != 3 for f in frames):
                self.report('stop-wrote', 'stop wrote non-NOTIFICATION frames %s' % (frames,), feats)
            for t in self.pre['live']:
                if t.connected and not t.disconnecting:
                    self.report('stop-not-closed', 'connection %d still open after manual-stop' % t.connector.cid, feats)
            if self.connects_now:
                self.report('stop-connects', 'manual-stop issued connectTCP', feats)
            rs = w.rest_state()
            if rs != 'IDLE':
                self.report('stop-state', 'reported state %s after manual-stop' % rs, feats)
        elif name == 'START':
            code, body = info['applied']
            st = self.pre['state']
            if self.pre['stopped']:
                self.starts_checked += 1
                feats = ['pre:' + str(st), 'pending:%d' % min(self.pre['pending'], 1)]
                if self.connects_now != 1:
                    self.report('start-no-connect', 'manual-start in stopped state issued %d connectTCP (answer %s %s)'
                                % (self.connects_now, code, body), feats)
                self.stopped = False
            elif st == 'ESTABLISHED':
                self.starts_checked += 1
                if self.writes_now or self.connects_now or w.rest_state() != 'ESTABLISHED':
                    self.report('start-established-effect', 'manual-start while Established: writes=%d connects=%d state=%s'
                                % (len(self.writes_now), self.connects_now, w.rest_state()), [])
        elif self.stopped:
            self.post_stop_events += 1
            feats = ['event:' + name]
            if self.writes_now:
                fr = [wire.summarize(f) for f in wire.frames_of_writes([(0, d) for _, d in self.writes_now])]
                self.report('write-after-stop', 'after manual-stop, event %s made the agent write %s' % (ev, fr), feats)
            if self.connects_now:
                self.report('connect-after-stop', 'after manual-stop, event %s made the agent call connectTCP' % ev, feats)
            rs = w.rest_state()
            if rs != 'IDLE':
                self.report('state-after-stop', 'after manual-stop, reported state %s after event %s' % (rs, ev), feats)

    def extra(self):
        return self.stopped


class StatMonitor(Monitor):
    """C18: statistic endpoint == what crossed the wire of the connection it reports on."""

    def __init__(self, w):
        Monitor.__init__(self, w)
        self.comparisons = 0
        self.skipped = 0
        self.ambiguous = set()
        self.totals = {}
        self.chunk_guard = {}

    def before(self, ev):
        self.pre_closing = {id(t): t.disconnecting for t in self.w.open_transports()}
        self.pre_delivered = {id(t): len(t.delivered) for t in self.w.transports()}

    def after(self, ev, info):
        w = self.w
        # a chunk that completed more than one frame on a connection the agent closed during it: which
        # frames count as 'received' is not defined -> the receive side of that connection is not judged
        for t in w.transports():
            n0 = self.pre_delivered.get(id(t), 0)
            if len(t.delivered) > n0 and (t.disconnecting or not t.connected):
                before = b''.join(d for _, d in t.delivered[:n0])
                after_ = b''.join(d for _, d in t.delivered)
                a, _ = wire.deframe(before)
                b, _ = wire.deframe(after_)
                if len(b) - len(a) > 1:
                    self.ambiguous.add(id(t))
        pr = w.fsm.protocol
        if pr is None or pr.transport is None:
            self.skipped += 1
            return
        stat = w.rest_stat()
        if stat is None:
            self.skipped += 1
            return
        tr = pr.transport
        sent = {k: 0 for k in ('Opens', 'Updates', 'Notifications', 'Keepalives', 'RouteRefresh')}
        garbage = False
        for f in wire.frames_of_writes(tr.written):
            if f[1] in wire.TYPE_NAME:
                sent[wire.TYPE_NAME[f[1]]] += 1
            else:
                garbage = True
        recv = {k: 0 for k in sent}
        items, _ = wire.deframe(b''.join(d for _, d in tr.delivered))
        for it in items:
            if it[0] == 'frame' and len(it[3]) >= wire.MIN_LEN[it[1]]:
                recv[wire.TYPE_NAME[it[1]]] += 1
        self.comparisons += 1
        for k in sent:
            self.totals['sent:' + k] = max(self.totals.get('sent:' + k, 0), sent[k])
            self.totals['recv:' + k] = max(self.totals.get('recv:' + k, 0), recv[k])
        if not garbage:
            for k in sent:
                if stat['send'].get(k) != sent[k]:
                    self.report('sent-counter', 'sent %s: endpoint says %s, wire has %s (after %s)'
                                % (k, stat['send'].get(k), sent[k], ev), ['type:' + k, 'dir:' + (
                                    'over' if (stat['send'].get(k) or 0) > sent[k] else 'under')])
        if id(tr) not in self.ambiguous:
            for k in recv:
                if stat['receive'].get(k) != recv[k]:
                    self.report('recv-counter', 'received %s: endpoint says %s, delivered stream has %s (after %s)'
                                % (k, stat['receive'].get(k), recv[k], ev), ['type:' + k, 'dir:' + (
                                    'over' if (stat['receive'].get(k) or 0) > recv[k] else 'under')])
