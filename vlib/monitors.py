"""Boundary monitors shared by the session-level checks (DESIGN.md 3.4): connection ledger (C12),
operator-stop monitor (C13), statistics conservation (C18)."""
from .session import Monitor, parse_event, is_lazy, MSGS
from .world import reactor
from . import wire


class LedgerMonitor(Monitor):
    """C12: at most one connection or attempt; writes go to the tracked connection."""

    def __init__(self, w):
        Monitor.__init__(self, w)
        self.max_live = 0
        self.attempts = 0
        self.late_accepts = 0
        self.writes = 0
        self.cur = None
        reactor.connect_observers.append(self.on_connect)
        reactor.write_observers.append(self.on_write)

    def on_connect(self, connector):
        self.attempts += 1
        pend = [c for c in reactor._attempts if c.state == 'connecting']
        live = self.w.live()
        if pend or live:
            what = 'pending' if pend else 'connected'
            trig = self.trigger()
            self.report('second-attempt', 'connectTCP while %d pending / %d connected exist; trigger %s; fsm=%s'
                        % (len(pend), len(live), trig, self.w.state_direct()),
                        ['existing:' + what, 'trigger:' + trig])

    def trigger(self):
        name = parse_event(self.cur)[0] if self.cur else '?'
        return name

    def on_write(self, tr, data):
        self.writes += 1
        if tr is not self.w.tracked_transport():
            self.report('write-untracked', 'write of type %s to connection %d which the FSM does not track (event %s)'
                        % (data[18] if len(data) > 18 else '?', tr.connector.cid, self.cur),
                        ['trigger:' + self.trigger()])

    def before(self, ev):
        self.cur = ev
        name, idx, _ = parse_event(ev)
        if name == 'ACCEPT':
            p = self.w.pending()
            if idx < len(p) and (len(p) > 1 or p[idx].t_start < self.w.now()):
                self.late_accepts += 1

    def after(self, ev, info):
        n = self.w.live_count()
        prev, self.prev_live = getattr(self, 'prev_live', 0), n
        self.max_live = max(self.max_live, n)
        if n > 1 and prev <= 1:
            self.report('two-live', '%d live connectors after %s: %s' % (
                n, ev, [(c.cid, c.state) for c in self.w.connectors() if c.state != 'disconnected']),
                ['trigger:' + self.trigger()])

    def final(self, silent=300.0):
        """300 s of virtual time with a silent peer, then look for leaked connections."""
        self.cur = 'FINAL'
        while reactor.defer_io and reactor._io_pending:
            reactor.sim_complete_close(0)
            self.w.settle()
        self.w.advance(silent)
        while reactor.defer_io and reactor._io_pending:
            reactor.sim_complete_close(0)
            self.w.settle()
        tracked = self.w.tracked_transport()
        for t in self.w.open_transports():
            if t is not tracked and not t.disconnecting:
                self.report('leaked-connection', 'connection %d still open after %ss, not referenced by the FSM, '
                            'closed by nobody' % (t.connector.cid, silent), [])
        self.after('FINAL', None)


class StopMonitor(Monitor):
    """C13: operator stop is final until operator start."""

    def __init__(self, w):
        Monitor.__init__(self, w)
        self.stopped = False
        self.pre = None
        self.nw = 0
        self.na = 0
        self.stops_by_state = {}
        self.post_stop_events = 0
        self.starts_checked = 0
        self.cur = None
        reactor.connect_observers.append(self.on_connect)
        reactor.write_observers.append(self.on_write)
        self.writes_now = []
        self.connects_now = 0

    def on_connect(self, c):
        self.connects_now += 1

    def on_write(self, tr, data):
        self.writes_now.append((tr, data))

    @staticmethod
    def _queued_writes():
        # writes a send has handed to the reactor thread (callFromThread(write_tcp_thread, ...)) and that have not run yet
        return sum(1 for f, a, kw in reactor._thread_q if getattr(f, '__name__', '') == 'write_tcp_thread')

    def _from_queue(self, frames):
        """True if what was written during this event is explained by UPDATEs that were already queued for the reactor thread
        before it (known finding rest-send-queued-before-manual-stop: the send was answered / counted before the stop)"""
        ran = self.q_before - self._queued_writes()
        body = [f for f in frames if f[0] != 3]
        return bool(body) and ran > 0 and all(f[0] == 2 for f in body) and len(body) <= ran

    def before(self, ev):
        self.cur = ev
        self.writes_now = []
        self.connects_now = 0
        self.q_before = self._queued_writes()
        name = parse_event(ev)[0]
        if name in ('STOP', 'START'):
            self.pre = dict(state=self.w.rest_state(), tracked=self.w.tracked_transport(),
                            live=list(self.w.live()), pending=len(self.w.pending()), stopped=self.stopped)
            self.writes_now = []
            self.connects_now = 0

    def after(self, ev, info):
        name = parse_event(ev)[0]
        w = self.w
        if getattr(self, 'to_be_closed', None) and not is_lazy(ev):
            trs, feats_ = self.to_be_closed
            self.to_be_closed = None
            for t in trs:
                if t.connected and not t.disconnecting:
                    self.report('stop-not-closed', 'connection %d still open after manual-stop and the end of its instant' % t.connector.cid, feats_)
        if name == 'STOP':
            code, body = info['applied']
            ok = code == 200 and body and body.get('status') is True
            st = self.pre['state']
            self.stops_by_state[st] = self.stops_by_state.get(st, 0) + 1
            feats = ['pre:' + str(st), 'pending:%d' % min(self.pre['pending'], 1)]
            if not ok:
                self.report('stop-refused', 'manual-stop answered %s %s' % (code, body), feats)
                return
            self.stopped = True
            frames = [wire.summarize(f) for f in wire.frames_of_writes([(0, d) for _, d in self.writes_now])]
            if self.pre['stopped'] and self.writes_now:
                # the operator's stop is already in force: repeating it sends nothing (the Cease went out with the first one)
                self.report('write-after-stop', 'manual-stop repeated while stopped made the agent write %s' % (frames,), feats + ['event:STOP'])
            if st == 'ESTABLISHED':
                if not any(f[0] == 3 and f[1] == 6 for f in frames):
                    self.report('stop-no-cease', 'stop in Established wrote %s, no Cease' % (frames,), feats)
            if any(f[0] != 3 for f in frames):
                if self._from_queue(frames):
                    self.report('write-after-stop', 'UPDATE(s) a send had queued for the reactor thread before the stop were written after it: %s' % (frames,),
                                feats + ['race:send-queued-before-stop'])
                else:
                    self.report('stop-wrote', 'stop wrote non-NOTIFICATION frames %s' % (frames,), feats)
            if is_lazy(ev):
                # the reactor has not finished the instant of this stop: whether the connection is closed is judged when it has
                self.to_be_closed = (list(self.pre['live']), feats)
            else:
                for t in self.pre['live']:
                    if t.connected and not t.disconnecting:
                        self.report('stop-not-closed', 'connection %d still open after manual-stop' % t.connector.cid, feats)
            if self.connects_now:
                self.report('stop-connects', 'manual-stop issued connectTCP', feats)
            rs = w.rest_state()
            if rs != 'IDLE':
                self.report('stop-state', 'reported state %s after manual-stop' % rs, feats)
        elif name == 'START':
            code, body = info['applied']
            st = self.pre['state']
            if self.pre['stopped']:
                self.starts_checked += 1
                feats = ['pre:' + str(st), 'pending:%d' % min(self.pre['pending'], 1)]
                if self.connects_now != 1:
                    self.report('start-no-connect', 'manual-start in stopped state issued %d connectTCP (answer %s %s)'
                                % (self.connects_now, code, body), feats)
                elif not is_lazy(ev) and w.live_count() == 0:
                    # "begins connecting at once": the attempt it has just started is still under way when its instant ends
                    # (the peer answers with a later event)
                    self.report('start-attempt-gone', 'manual-start in stopped state called connectTCP, but no attempt or connection is left at the end of that instant (fsm %s)'
                                % w.state_direct(), feats)
                self.stopped = False
            elif st == 'ESTABLISHED':
                self.starts_checked += 1
                if self.writes_now or self.connects_now or w.rest_state() != 'ESTABLISHED':
                    self.report('start-established-effect', 'manual-start while Established: writes=%d connects=%d state=%s'
                                % (len(self.writes_now), self.connects_now, w.rest_state()), [])
        elif self.stopped:
            self.post_stop_events += 1
            feats = ['event:' + name]
            if self.writes_now:
                fr = [wire.summarize(f) for f in wire.frames_of_writes([(0, d) for _, d in self.writes_now])]
                self.report('write-after-stop', 'after manual-stop, event %s made the agent write %s' % (ev, fr),
                            feats + (['race:send-queued-before-stop'] if self._from_queue(fr) else []))
            if self.connects_now:
                self.report('connect-after-stop', 'after manual-stop, event %s made the agent call connectTCP' % ev, feats)
            rs = w.rest_state()
            if rs != 'IDLE':
                self.report('state-after-stop', 'after manual-stop, reported state %s after event %s' % (rs, ev), feats)

    def extra(self):
        return self.stopped


class StatMonitor(Monitor):
    """C18: statistic endpoint == what crossed the wire of the connection it reports on."""

    def __init__(self, w):
        Monitor.__init__(self, w)
        self.comparisons = 0
        self.skipped = 0
        self.ambiguous = set()
        self.totals = {}
        self.chunk_guard = {}

    def before(self, ev):
        self.pre_closing = {id(t): t.disconnecting for t in self.w.open_transports()}
        self.pre_delivered = {id(t): len(t.delivered) for t in self.w.transports()}

    def after(self, ev, info):
        w = self.w
        # a chunk that completed more than one frame on a connection the agent closed during it: which
        # frames count as 'received' is not defined -> the receive side of that connection is not judged
        for t in w.transports():
            n0 = self.pre_delivered.get(id(t), 0)
            if len(t.delivered) > n0 and (t.disconnecting or not t.connected):
                before = b''.join(d for _, d in t.delivered[:n0])
                after_ = b''.join(d for _, d in t.delivered)
                a, _ = wire.deframe(before)
                b, _ = wire.deframe(after_)
                if len(b) - len(a) > 1:
                    self.ambiguous.add(id(t))
        pr = w.fsm.protocol
        if pr is None or pr.transport is None:
            self.skipped += 1
            return
        if reactor._thread_q:
            # a write handed to the reactor thread has been counted and not yet made (the instant is not finished, '~' events):
            # counters and wire legitimately differ until it runs
            self.skipped += 1
            return
        stat = w.rest_stat()
        if stat is None:
            self.skipped += 1
            return
        tr = pr.transport
        sent = {k: 0 for k in ('Opens', 'Updates', 'Notifications', 'Keepalives', 'RouteRefresh')}
        garbage = False
        for f in wire.frames_of_writes(tr.written):
            if f[1] in wire.TYPE_NAME:
                sent[wire.TYPE_NAME[f[1]]] += 1
            else:
                garbage = True
        recv = {k: 0 for k in sent}
        items, _ = wire.deframe(b''.join(d for _, d in tr.delivered))
        for it in items:
            if it[0] == 'frame' and len(it[3]) >= wire.MIN_LEN[it[1]]:
                recv[wire.TYPE_NAME[it[1]]] += 1
        self.comparisons += 1
        for k in sent:
            self.totals['sent:' + k] = max(self.totals.get('sent:' + k, 0), sent[k])
            self.totals['recv:' + k] = max(self.totals.get('recv:' + k, 0), recv[k])
        if not garbage:
            for k in sent:
                if stat['send'].get(k) != sent[k]:
                    self.report('sent-counter', 'sent %s: endpoint says %s, wire has %s (after %s)'
                                % (k, stat['send'].get(k), sent[k], ev), ['type:' + k, 'dir:' + (
                                    'over' if (stat['send'].get(k) or 0) > sent[k] else 'under')])
        if id(tr) not in self.ambiguous:
            for k in recv:
                if stat['receive'].get(k) != recv[k]:
                    self.report('recv-counter', 'received %s: endpoint says %s, delivered stream has %s (after %s)'
                                % (k, stat['receive'].get(k), recv[k], ev), ['type:' + k, 'dir:' + (
                                    'over' if (stat['receive'].get(k) or 0) > recv[k] else 'under')])


class ProfileMonitor(Monitor):
    """C01: lock-step comparison with the reference session profile (vlib/fsm_profile.py)."""

    def __init__(self, w):
        from . import fsm_profile
        from .world import CONF
        Monitor.__init__(self, w)
        self.fp = fsm_profile
        self.m = fsm_profile.Model(hold=CONF.time.hold_time, idle_hold=CONF.time.idle_hold_time,
                                   connect_retry=CONF.time.connect_retry_time, boot=CONF.time.bgp_peer_call_later_time,
                                   remote_as=w.remote_as)
        self.pairs = set()
        self.notifs = set()
        self.steps = 0
        self.dead = False
        self.order_forks = 0
        self.ntrace = 0

    def extra(self):
        return self.m.key()

    def before(self, ev):
        self.ntrace = len(reactor.trace)
        self.pre_state = self.m.st + ('/stopped' if self.m.stopped else '')

    def observed(self):
        w_, closed, att = [], False, 0
        for e in reactor.trace[self.ntrace:]:
            if e[1] == 'write':
                for f in wire.frames_of_writes([(e[0], e[3])]):
                    w_.append(wire.summarize(f) if f[1] in (1, 2, 3, 4, 5, 128) else ('garbage',))
            elif e[1] in ('lose', 'abort'):
                closed = True
            elif e[1] == 'connect':
                att += 1
        return w_, closed, att

    def after(self, ev, info):
        if self.dead:
            return 'CUT'
        name, idx, script = parse_event(ev)
        w = self.w
        if w.live_count() > 1:
            return 'CUT'          # outside the single-connection regime: left to C12
        if info['applied'] is False:
            return
        m = self.m
        got = self.observed()
        for x in got[0]:
            if x[0] == 3:
                self.notifs.add((x[1], x[2]))
        if name == 'TICK' or name.startswith('ADV'):
            res = m.time_alts(w.now())
            if len(res) > 1:
                self.order_forks += 1
            alts = [self.fp.Alt(r[0], r[1], r[2], (lambda s=r[3]: m.restore(s)), 'timers') for r in res]
            evkind = 'TICK'
        else:
            m.now = w.now()
            if name == 'ACCEPT':
                alts = m.ev_accept() if m.attempt else None
            elif name == 'REFUSE':
                alts = m.ev_refuse() if m.attempt else None
            elif name in ('PEERCLOSE', 'PEERRESET'):
                alts = m.ev_peerclose() if m.conn else None
            elif name == 'STOP':
                alts = m.ev_stop()
            elif name == 'START':
                alts = m.ev_start()
            elif name in MSGS:
                alts = m.ev_msg(MSGS[name][1]) if m.conn else None
            else:
                return
            evkind = name if not name.startswith('FZ') else 'FUZZ-' + MSGS[name][1]['kind']
            if alts is None:
                self.dead = True
                self.report('model-desync', 'event %s applied by the environment but the model has no %s (model %s, impl %s)'
                            % (ev, 'attempt' if name in ('ACCEPT', 'REFUSE') else 'connection', m.st, w.state_direct()),
                            ['state:' + self.pre_state, 'event:' + evkind])
                return 'CUT'
        self.pairs.add((self.pre_state, evkind))
        self.steps += 1
        hit = None
        for a in alts:
            if a.matches(*got):
                hit = a
                break
        feats = ['state:' + self.pre_state, 'event:' + evkind]
        if hit is None:
            self.dead = True
            self.report('fsm-deviation', 'in %s on %s: allowed %s ; observed writes=%s close=%s connects=%d (impl state %s)'
                        % (self.pre_state, ev, ' | '.join(repr(a) for a in alts[:6]), got[0], got[1], got[2], w.state_direct()), feats)
            return 'CUT'
        hit.apply()
        rs = w.rest_state()
        if rs != m.st:
            self.dead = True
            self.report('state-deviation', 'in %s on %s (%s): reported state %s, profile says %s'
                        % (self.pre_state, ev, hit.name, rs, m.st), feats + ['reported:' + str(rs), 'expected:' + m.st])
            return 'CUT'
        mlive = 1 if (m.attempt or m.conn) else 0
        if mlive != w.live_count():
            self.dead = True
            self.report('connection-deviation', 'in %s on %s: profile has %d live connection/attempt, implementation %d'
                        % (self.pre_state, ev, mlive, w.live_count()), feats)
            return 'CUT'


class EstabMonitor(Monitor):
    """C01: ESTABLISHED is reported only after, on the current connection, agent OPEN, valid peer OPEN,
    agent KEEPALIVE, peer KEEPALIVE (a trace automaton over the tap, independent of the profile table)."""

    def __init__(self, w):
        Monitor.__init__(self, w)
        self.checked = 0

    def after(self, ev, info):
        w = self.w
        if w.state_direct() != 'ESTABLISHED' and w.rest_state() != 'ESTABLISHED':
            return
        self.checked += 1
        tr = w.tracked_transport()
        ok = False
        why = 'no tracked connection'
        if tr is not None and tr.connected:
            evs = [(t, 'out', f[1], f[2]) for (t, f) in [(x[0], x) for x in wire.frames_of_writes(tr.written)]]
            items, _ = wire.deframe(b''.join(d for _, d in tr.delivered))
            # interleave by order of occurrence: writes carry timestamps, deliveries too; rebuild from the reactor trace
            seq = []
            cid = tr.connector.cid
            nin = 0
            frames_in = [it for it in items if it[0] == 'frame']
            for e in reactor.trace:
                if e[1] == 'write' and e[2] == cid:
                    for f in wire.frames_of_writes([(e[0], e[3])]):
                        seq.append(('out', f[1], f[2]))
                elif e[1] == 'deliver' and e[2] == cid:
                    seq.append(('in-chunk',))
            # deliveries: one frame per chunk in these workloads; map chunks to frames in order
            k = 0
            seq2 = []
            for s in seq:
                if s[0] == 'in-chunk':
                    if k < len(frames_in):
                        seq2.append(('in', frames_in[k][1], frames_in[k][2]))
                        k += 1
                else:
                    seq2.append(s)
            stage = 0
            for s in seq2:
                if stage == 0 and s[0] == 'out' and s[1] == 1:
                    stage = 1
                elif stage == 1 and s[0] == 'in' and s[1] == 1:
                    o = wire.parse_open(s[2])
                    if o and o['version'] == 4 and o['hold'] not in (1, 2) and (o['as4'] if o['as4'] is not None else o['asn']) == w.remote_as:
                        stage = 2
                elif stage == 2 and s[0] == 'out' and s[1] == 4:
                    stage = 3
                elif stage == 3 and s[0] == 'in' and s[1] == 4:
                    stage = 4
            ok = stage == 4
            why = 'handshake on the current connection reached stage %d of 4 (agent OPEN, valid peer OPEN, agent KEEPALIVE, peer KEEPALIVE)' % stage
        if not ok:
            self.report('established-without-handshake', 'ESTABLISHED reported after %s but %s' % (ev, why), [])
