"""Runtime contracts on the real yabgp functions (DESIGN.md 3.6), applied from the harness with icontract.

Conditions are named functions with an explicit error class; in 'collect' mode they record a violation and
return True (one violation must not abort the workload and mask the rest); every contract counts its
evaluations - zero evaluations means the monitor was never reached (inconclusive)."""
import json
import struct

from . import env
env.setup()
import icontract  # noqa: E402

from . import gen, refenc  # noqa: E402


class RoundTripBroken(Exception):
    pass


class StructureBroken(Exception):
    pass


STATE = dict(mode='collect', evaluations={}, violations=[], installed=False, walker=None)


def _count(name):
    STATE['evaluations'][name] = STATE['evaluations'].get(name, 0) + 1


def ext_item_text(item):
    """[code, value...] (ExtCommunity.construct input) -> documented decoder text"""
    code = item[0]
    names = {2: 'route-target', 258: 'route-target', 514: 'route-target', 3: 'route-origin', 259: 'route-origin', 515: 'route-origin',
             32776: 'redirect-vrf', 16388: 'dmzlink-bw', 32774: 'traffic-rate'}
    if code in names:
        return '%s:%s' % (names[code], item[1])
    if code == 2048:
        return 'redirect-nexthop:%s:%s' % (item[1], item[2])
    if code == 779:
        return 'color:%s' % item[1]
    if code == 780:
        return 'encapsulation:%s' % item[1]
    if code == 32777:
        return 'traffic-marking-dscp:%s' % item[1]
    if code == 32775:
        return 'traffic-action:S:%s,T:%s' % (item[1].get('s', 0), item[1].get('t', 0))
    if code == 1537:
        return 'esi-label:%s:%s' % (item[1], item[2])
    if code == 1536:
        return 'mac-mobility:%s:%s' % (item[1], item[2])
    if code == 1538:
        return 'es-import:%s' % item[1]
    if code == 1539:
        return 'router-mac:%s' % item[1]
    return None


def canon_community(text):
    up = {v.upper(): v for v in gen.WELL_KNOWN.values()}
    if text.upper() in up:
        return up[text.upper()]
    hi, lo = text.split(':')
    v = (int(hi) << 16) | int(lo)
    return gen.WELL_KNOWN.get(v, '%d:%d' % (int(hi), int(lo)))


def canon_message(m):
    """the dictionary Update.parse is documented to return for what construct was given"""
    attrs = {}
    for k, v in (m.get('attr') or {}).items():
        k = int(k)
        if k == 16:
            v = [ext_item_text(i) for i in v]
        elif k == 8:
            v = [canon_community(c) for c in v]
        elif k == 6:
            v = ''
        elif k in (14, 15) and isinstance(v, dict) and list(v.get('afi_safi') or []) == [25, 70]:
            # an EVPN IP prefix route is given its segment identifier as the number 0 and decoded as ESI type 0, value 0
            def _r(r):
                if isinstance(r, dict) and r.get('type') == 5 and r['value'].get('esi') == 0:
                    return dict(r, value=dict(r['value'], esi={'type': 0, 'value': 0}))
                return r
            v = {kk: ([_r(r) for r in vv] if kk in ('nlri', 'withdraw') and isinstance(vv, list) else vv) for kk, vv in v.items()}
        attrs[k] = v
    return dict(attr=gen.norm(attrs), nlri=gen.norm(m.get('nlri') or []), withdraw=gen.norm(m.get('withdraw') or []))


def roundtrip_violation(Update, msg_dict, asn4, result, addpath=False):
    """None if decode(construct(m)) == m, else a description"""
    want = canon_message(msg_dict)
    if result is None:
        if want['attr'] or want['nlri'] or want['withdraw']:
            return 'construct returned None for a non-empty request'
        return None
    if not isinstance(result, (bytes, bytearray)) or result[:16] != b'\xff' * 16:
        return 'construct returned %r' % (result[:40] if isinstance(result, (bytes, bytearray)) else result,)
    try:
        back = Update.parse(None, bytes(result[19:]), asn4, {'ipv4': True} if addpath else None)
    except Exception as e:
        return 'decoding the constructed message raised %r' % (e,)
    if back.get('sub_error'):
        return 'decoding the constructed message reports sub_error %r' % (back['sub_error'],)
    got = dict(attr=gen.norm(back['attr'] or {}), nlri=gen.norm(back['nlri']), withdraw=gen.norm(back['withdraw']))
    for part in ('attr', 'nlri', 'withdraw'):
        if got[part] != want[part]:
            if part == 'attr':
                keys = sorted(set(got['attr']) | set(want['attr']), key=int)
                diff = {k: (want['attr'].get(k), got['attr'].get(k)) for k in keys if want['attr'].get(k) != got['attr'].get(k)}
                return 'attributes differ (given, decoded): %s' % json.dumps(diff)[:600]
            return '%s differ: given %s decoded %s' % (part, json.dumps(want[part])[:300], json.dumps(got[part])[:300])
    return None


def install(on_violation=None):
    """Wrap Update.construct with the round-trip (C06/C07) and structure (C08) post-conditions."""
    if STATE['installed']:
        return
    from yabgp.message.update import Update
    raw = Update.__dict__['construct'].__func__

    def roundtrip_holds(cls, msg_dict, result, asn4=False, addpath=False):
        _count('Update.construct:roundtrip')
        why = roundtrip_violation(Update, msg_dict, asn4, result, addpath)
        if why:
            rec = dict(contract='roundtrip', msg=gen.norm(msg_dict), asn4=bool(asn4), addpath=bool(addpath), why=why)
            STATE['violations'].append(rec)
            if on_violation:
                on_violation(rec)
            return STATE['mode'] == 'collect'
        return True

    def structure_holds(cls, msg_dict, result, asn4=False, addpath=False):
        _count('Update.construct:structure')
        w = STATE['walker']
        if w is None or result is None:
            return True
        probs = w(bytes(result), asn4=asn4, addpath=addpath)
        if probs:
            rec = dict(contract='structure', msg=gen.norm(msg_dict), asn4=bool(asn4), why='; '.join(probs[:4]), hex=bytes(result).hex()[:400])
            STATE['violations'].append(rec)
            if on_violation:
                on_violation(rec)
            return STATE['mode'] == 'collect'
        return True

    wrapped = icontract.ensure(roundtrip_holds, error=RoundTripBroken)(
        icontract.ensure(structure_holds, error=StructureBroken)(raw))
    Update.construct = classmethod(wrapped)
    STATE['installed'] = True
