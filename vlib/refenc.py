"""Reference BGP encoder written from the RFCs (4271, 4760, 2545, 8277, 4364, 4659, 7432, 8955, 4360, 5668,
8092, 6793, 7911, 5492, 2918, 4724 ...).  Imports nothing from yabgp.  Takes values in yabgp's documented
result shapes (vlib/gen.py) and has variant switches for legal encodings yabgp itself never emits."""
import ipaddress
import struct

MARKER = b'\xff' * 16

# attribute flag octets by RFC category
WELL_KNOWN, OPT_NONTRANS, OPT_TRANS = 0x40, 0x80, 0xc0
ATTR_CATEGORY = {1: WELL_KNOWN, 2: WELL_KNOWN, 3: WELL_KNOWN, 4: OPT_NONTRANS, 5: WELL_KNOWN, 6: WELL_KNOWN, 7: OPT_TRANS,
                 8: OPT_TRANS, 9: OPT_NONTRANS, 10: OPT_NONTRANS, 14: OPT_NONTRANS, 15: OPT_NONTRANS, 16: OPT_TRANS,
                 17: OPT_TRANS, 18: OPT_TRANS, 22: OPT_TRANS, 23: OPT_TRANS, 29: OPT_NONTRANS, 32: OPT_TRANS, 40: OPT_TRANS}


def frame(t, body):
    return MARKER + struct.pack('!HB', 19 + len(body), t) + body


def attr(code, value, ext=False, flags=None):
    fl = ATTR_CATEGORY.get(code, OPT_TRANS) if flags is None else flags
    if ext or len(value) > 255:
        return struct.pack('!BBH', fl | 0x10, code, len(value)) + value
    return struct.pack('!BBB', fl, code, len(value)) + value


# ------------------------------------------------------------------ prefixes
def prefix4_bytes(p, dirty=None):
    ip, n = p.split('/')
    n = int(n)
    raw = ipaddress.IPv4Address(ip).packed
    nb = (n + 7) // 8
    b = bytearray(raw[:nb])
    if dirty is not None and n % 8 and nb:
        b[-1] |= dirty & (0xff >> (n % 8))
    return bytes([n]) + bytes(b)


def prefix6_bytes(p, dirty=None):
    ip, n = p.split('/')
    n = int(n)
    raw = ipaddress.IPv6Address(ip).packed
    nb = (n + 7) // 8
    b = bytearray(raw[:nb])
    if dirty is not None and n % 8 and nb:
        b[-1] |= dirty & (0xff >> (n % 8))
    return bytes([n]) + bytes(b)


def prefix_list4(ps, dirty=None, path_ids=None):
    out = b''
    for i, p in enumerate(ps):
        if path_ids is not None:
            out += struct.pack('!I', path_ids[i])
        out += prefix4_bytes(p, dirty)
    return out


# ------------------------------------------------------------------ communities
def community_value(text):
    from .gen import WELL_KNOWN as WK
    rev = {v: k for k, v in WK.items()}
    if text in rev:
        return rev[text]
    hi, lo = text.split(':')
    return (int(hi) << 16) | int(lo)


def mac_bytes(m):
    return bytes(int(x, 16) for x in m.split('-'))


def rate_text(r):
    """a traffic rate as text: whole numbers without a fraction, others with the digits that give the same IEEE float back"""
    return str(int(r)) if float(r) == int(r) else repr(float(r))


def ext_community_bytes(e):
    k = e['kind']
    if k in ('rt0', 'ro0'):
        return struct.pack('!BBHI', 0x00, 0x02 if k == 'rt0' else 0x03, e['asn'], e['an'])
    if k in ('rt1', 'ro1'):
        return struct.pack('!BB', 0x01, 0x02 if k == 'rt1' else 0x03) + ipaddress.IPv4Address(e['ip']).packed + struct.pack('!H', e['an'])
    if k in ('rt2', 'ro2'):
        return struct.pack('!BBIH', 0x02, 0x02 if k == 'rt2' else 0x03, e['asn'], e['an'])
    if k == 'color':
        return struct.pack('!BBHI', 0x03, 0x0b, 0, e['value'])
    if k == 'encap':
        return struct.pack('!BBIH', 0x03, 0x0c, 0, e['value'])
    if k == 'redirect-vrf':
        return struct.pack('!BBHI', 0x80, 0x08, e['asn'], e['an'])
    if k == 'redirect-nh':
        return struct.pack('!BB', 0x08, 0x00) + ipaddress.IPv4Address(e['ip']).packed + struct.pack('!H', e['copy'])
    if k == 'traffic-rate':
        return struct.pack('!BBHf', 0x80, 0x06, e['asn'], float(e['rate']))
    if k == 'traffic-action':
        return struct.pack('!BB', 0x80, 0x07) + b'\x00' * 5 + bytes([e['s'] * 2 + e['t']])
    if k == 'traffic-marking':
        return struct.pack('!BB', 0x80, 0x09) + b'\x00' * 5 + bytes([e['dscp']])
    if k == 'dmzlink-bw':
        return struct.pack('!BBHI', 0x40, 0x04, e['asn'], e['an'])
    if k == 'esi-label':
        return struct.pack('!BBB', 0x06, 0x01, e['flag']) + b'\x00\x00' + struct.pack('!I', (e['label'] << 4) | 1)[1:]
    if k == 'mac-mobility':
        return struct.pack('!BBBBI', 0x06, 0x00, e['flag'], 0, e['seq'])
    if k == 'es-import':
        return struct.pack('!BB', 0x06, 0x02) + mac_bytes(e['mac'])
    if k == 'router-mac':
        return struct.pack('!BB', 0x06, 0x03) + mac_bytes(e['mac'])
    raise ValueError(k)


def ext_text(e):
    """the text form documented for yabgp's decoder"""
    k = e['kind']
    if k in ('rt0', 'rt2'):
        return 'route-target:%d:%d' % (e['asn'], e['an'])
    if k == 'rt1':
        return 'route-target:%s:%d' % (e['ip'], e['an'])
    if k in ('ro0', 'ro2'):
        return 'route-origin:%d:%d' % (e['asn'], e['an'])
    if k == 'ro1':
        return 'route-origin:%s:%d' % (e['ip'], e['an'])
    if k == 'color':
        return 'color:%d' % e['value']
    if k == 'encap':
        return 'encapsulation:%d' % e['value']
    if k == 'redirect-vrf':
        return 'redirect-vrf:%d:%d' % (e['asn'], e['an'])
    if k == 'redirect-nh':
        return 'redirect-nexthop:%s:%d' % (e['ip'], e['copy'])
    if k == 'traffic-rate':
        return 'traffic-rate:%d:%s' % (e['asn'], rate_text(e['rate']))
    if k == 'traffic-action':
        return 'traffic-action:S:%d,T:%d' % (e['s'], e['t'])
    if k == 'traffic-marking':
        return 'traffic-marking-dscp:%d' % e['dscp']
    if k == 'dmzlink-bw':
        return 'dmzlink-bw:%d:%d' % (e['asn'], e['an'])
    if k == 'esi-label':
        return 'esi-label:%d:%d' % (e['flag'], e['label'])
    if k == 'mac-mobility':
        return 'mac-mobility:%d:%d' % (e['flag'], e['seq'])
    if k == 'es-import':
        return 'es-import:%s' % e['mac']
    if k == 'router-mac':
        return 'router-mac:%s' % e['mac']
    raise ValueError(k)


def ext_construct(e):
    """the [code, value...] form yabgp's ExtCommunity.construct takes (doc/source/msg_format)"""
    k = e['kind']
    code = {'rt0': 2, 'rt1': 258, 'rt2': 514, 'ro0': 3, 'ro1': 259, 'ro2': 515, 'color': 779, 'encap': 780, 'redirect-vrf': 32776,
            'redirect-nh': 2048, 'traffic-rate': 32774, 'traffic-action': 32775, 'traffic-marking': 32777, 'dmzlink-bw': 16388,
            'esi-label': 1537, 'mac-mobility': 1536, 'es-import': 1538, 'router-mac': 1539}[k]
    if k in ('rt0', 'rt2', 'ro0', 'ro2', 'redirect-vrf', 'dmzlink-bw'):
        return [code, '%d:%d' % (e['asn'], e['an'])]
    if k in ('rt1', 'ro1'):
        return [code, '%s:%d' % (e['ip'], e['an'])]
    if k in ('color', 'encap'):
        return [code, e['value']]
    if k == 'redirect-nh':
        return [code, e['ip'], e['copy']]
    if k == 'traffic-rate':
        return [code, '%d:%s' % (e['asn'], rate_text(e['rate']))]
    if k == 'traffic-action':
        return [code, {'s': e['s'], 't': e['t']}]
    if k == 'traffic-marking':
        return [code, e['dscp']]
    if k == 'esi-label':
        return [code, e['flag'], e['label']]
    if k == 'mac-mobility':
        return [code, e['flag'], e['seq']]
    return [code, e['mac']]


# ------------------------------------------------------------------ standard attributes
def as_path_bytes(segs, asn4):
    out = b''
    for t, asns in segs:
        out += bytes([t, len(asns)]) + b''.join(struct.pack('!I' if asn4 else '!H', a) for a in asns)
    return out


def std_attr_value(code, v, asn4):
    if code == 1:
        return bytes([v])
    if code == 2:
        return as_path_bytes(v, asn4)
    if code == 17:
        return as_path_bytes(v, True)
    if code in (3, 9):
        return ipaddress.IPv4Address(v).packed
    if code in (4, 5):
        return struct.pack('!I', v)
    if code == 6:
        return b''
    if code == 7:
        return struct.pack('!I' if asn4 else '!H', v[0]) + ipaddress.IPv4Address(v[1]).packed
    if code == 18:
        return struct.pack('!I', v[0]) + ipaddress.IPv4Address(v[1]).packed
    if code == 8:
        return b''.join(struct.pack('!I', community_value(c)) for c in v)
    if code == 10:
        return b''.join(ipaddress.IPv4Address(c).packed for c in v)
    if code == 16:
        return b''.join(ext_community_bytes(e) for e in v)
    if code == 32:
        return b''.join(struct.pack('!III', *[int(x) for x in c.split(':')]) for c in v)
    if code == 14:
        return mp_reach_value(v)
    if code == 15:
        return mp_unreach_value(v)
    raise ValueError(code)


def expected_attr(code, v):
    """what the decoder is documented to return for the value (text forms for communities)"""
    if code == 16:
        return [ext_text(e) for e in v]
    return v


def attributes(attrs, asn4, order=None, ext=False):
    out = b''
    for code in (order or sorted(attrs)):
        out += attr(code, std_attr_value(code, attrs[code], asn4), ext=ext)
    return out


def update_body(attrs=None, nlri=None, withdraw=None, asn4=True, order=None, ext=False, dirty=None, path_ids=None):
    wd = prefix_list4(withdraw or [], dirty, path_ids[1] if path_ids else None)
    at = attributes(attrs or {}, asn4, order, ext)
    nl = prefix_list4(nlri or [], dirty, path_ids[0] if path_ids else None)
    return struct.pack('!H', len(wd)) + wd + struct.pack('!H', len(at)) + at + nl


def update(attrs=None, nlri=None, withdraw=None, **kw):
    return frame(2, update_body(attrs, nlri, withdraw, **kw))


# ------------------------------------------------------------------ multiprotocol NLRI
def label_bytes(labels, withdraw=False):
    if withdraw:
        return b'\x80\x00\x00'
    out = b''
    for i, l in enumerate(labels):
        v = l << 4
        if i == len(labels) - 1:
            v |= 1
        out += struct.pack('!I', v)[1:]
    return out


def rd_bytes(rd):
    a, b = rd.rsplit(':', 1)
    if '.' in a:
        return struct.pack('!H', 1) + ipaddress.IPv4Address(a).packed + struct.pack('!H', int(b))
    if int(a) > 65535:
        return struct.pack('!HIH', 2, int(a), int(b))
    return struct.pack('!HHI', 0, int(a), int(b))


def esi_bytes(e):
    t, v = e['type'], e['value']
    if t == 0:
        return b'\x00' + v.to_bytes(9, 'big')
    if t == 1:
        return b'\x01' + mac_bytes(v['ce_mac_addr']) + struct.pack('!H', v['ce_port_key']) + b'\x00'
    if t == 2:
        return b'\x02' + mac_bytes(v['rb_mac_addr']) + struct.pack('!H', v['rb_priority']) + b'\x00'
    if t == 3:
        return b'\x03' + mac_bytes(v['sys_mac_addr']) + v['ld_value'].to_bytes(3, 'big')
    if t == 4:
        return b'\x04' + struct.pack('!II', v['router_id'], v['ld_value']) + b'\x00'
    return b'\x05' + struct.pack('!II', v['as_num'], v['ld_value']) + b'\x00'


def ip_bytes(s):
    return ipaddress.ip_address(s).packed


def evpn_route_bytes(r):
    t, v = r['type'], r['value']
    if t == 1:
        b = rd_bytes(v['rd']) + esi_bytes(v['esi']) + struct.pack('!I', v['eth_tag_id']) + label_bytes(v['label'])
    elif t == 2:
        b = rd_bytes(v['rd']) + esi_bytes(v['esi']) + struct.pack('!I', v['eth_tag_id']) + b'\x30' + mac_bytes(v['mac'])
        if v.get('ip'):
            ipb = ip_bytes(v['ip'])
            b += bytes([len(ipb) * 8]) + ipb
        else:
            b += b'\x00'
        b += label_bytes(v['label'])
    elif t == 3:
        ipb = ip_bytes(v['ip'])
        b = rd_bytes(v['rd']) + struct.pack('!I', v['eth_tag_id']) + bytes([len(ipb) * 8]) + ipb
    elif t == 4:
        ipb = ip_bytes(v['ip'])
        b = rd_bytes(v['rd']) + esi_bytes(v['esi']) + bytes([len(ipb) * 8]) + ipb
    elif t == 5:
        # RFC 9136: RD, ESI, Ethernet tag, prefix length, prefix and gateway (both 4 or both 16 octets), label
        addr, plen = v['prefix'].split('/')
        b = rd_bytes(v['rd']) + esi_bytes(v['esi']) + struct.pack('!I', v['eth_tag_id']) + bytes([int(plen)]) + ip_bytes(addr) + \
            ip_bytes(v['gateway']) + label_bytes(v['label'])
    else:
        raise ValueError(t)
    return bytes([t, len(b)]) + b


def fs_ops_bytes(text):
    """'=80|>=1024&<=2048' -> RFC 8955 numeric operator list"""
    items = []
    for i, alt in enumerate(text.split('|')):
        for j, term in enumerate(alt.split('&')):
            op = 0
            k = 0
            while term[k] in '<>=':
                op |= {'<': 4, '>': 2, '=': 1}[term[k]]
                k += 1
            val = int(term[k:])
            items.append([op | (0x40 if j > 0 else 0), val])
    out = b''
    for n, (op, val) in enumerate(items):
        width = 1 if val < 256 else 2 if val < 65536 else 4 if val < (1 << 32) else 8
        op |= {1: 0x00, 2: 0x10, 4: 0x20, 8: 0x30}[width]
        if n == len(items) - 1:
            op |= 0x80
        out += bytes([op]) + val.to_bytes(width, 'big')
    return out


def flowspec_rule_bytes(rule):
    b = b''
    for c in sorted(int(k) for k in rule):
        v = rule.get(c, rule.get(str(c)))
        if c in (1, 2):
            b += bytes([c]) + prefix4_bytes(v)
        else:
            b += bytes([c]) + fs_ops_bytes(v)
    if len(b) < 240:
        return bytes([len(b)]) + b
    return struct.pack('!H', 0xf000 | len(b)) + b


def family_nlri_bytes(afi_safi, routes, withdraw=False, dirty=None):
    afi, safi = afi_safi
    out = b''
    if (afi, safi) == (2, 1):
        for p in routes:
            out += prefix6_bytes(p, dirty)
    elif (afi, safi) == (1, 1):
        for p in routes:
            out += prefix4_bytes(p, dirty)
    elif safi == 4:
        for r in routes:
            lb = label_bytes(r['label'], withdraw)
            pb = (prefix6_bytes if afi == 2 else prefix4_bytes)(r['prefix'], dirty)
            out += bytes([pb[0] + 8 * len(lb)]) + lb + pb[1:]
    elif safi == 128:
        for r in routes:
            lb = label_bytes(r['label'], withdraw)
            pb = (prefix6_bytes if afi == 2 else prefix4_bytes)(r['prefix'], dirty)
            out += bytes([pb[0] + 8 * len(lb) + 64]) + lb + rd_bytes(r['rd']) + pb[1:]
    elif (afi, safi) == (25, 70):
        for r in routes:
            out += evpn_route_bytes(r)
    elif (afi, safi) == (1, 133):
        for r in routes:
            out += flowspec_rule_bytes(r)
    else:
        raise ValueError(afi_safi)
    return out


def nexthop_bytes(v):
    afi, safi = v['afi_safi']
    nh = v.get('nexthop')
    if safi == 128:
        return rd_bytes(nh.get('rd') or '0:0') + ip_bytes(nh['str'])
    if nh in ('', None):
        return b''
    b = ip_bytes(nh)
    if v.get('linklocal_nexthop'):
        b += ip_bytes(v['linklocal_nexthop'])
    return b


def mp_reach_value(v, dirty=None):
    afi, safi = v['afi_safi']
    nh = nexthop_bytes(v)
    return struct.pack('!HBB', afi, safi, len(nh)) + nh + b'\x00' + family_nlri_bytes((afi, safi), v['nlri'], False, dirty)


def mp_unreach_value(v, dirty=None):
    afi, safi = v['afi_safi']
    return struct.pack('!HB', afi, safi) + family_nlri_bytes((afi, safi), v['withdraw'], True, dirty)


# ------------------------------------------------------------------ OPEN / NOTIFICATION / ROUTE-REFRESH
def capability_bytes(c):
    """c = (code, value_bytes)"""
    return bytes([c[0], len(c[1])]) + c[1]


def open_msg(version, asn, hold, bgp_id, caps, packaging='one'):
    """caps: list of (code, bytes); packaging: 'one' parameter for all, 'each' own parameter, 'mixed', or None for no optional parameters"""
    field_as = asn if asn <= 65535 else 23456
    opt = b''
    if caps:
        if packaging == 'one':
            body = b''.join(capability_bytes(c) for c in caps)
            opt = bytes([2, len(body)]) + body
        elif packaging == 'each':
            for c in caps:
                cb = capability_bytes(c)
                opt += bytes([2, len(cb)]) + cb
        else:
            half = max(1, len(caps) // 2)
            for grp in (caps[:half], caps[half:]):
                if grp:
                    body = b''.join(capability_bytes(c) for c in grp)
                    opt += bytes([2, len(body)]) + body
    return frame(1, struct.pack('!BHH', version, field_as, hold) + ipaddress.IPv4Address(bgp_id).packed + bytes([len(opt)]) + opt)


def notification(code, sub, data=b''):
    return frame(3, bytes([code, sub]) + data)


def keepalive():
    return frame(4, b'')


def route_refresh(afi, safi, res=0, type_code=5):
    return frame(type_code, struct.pack('!HBB', afi, res, safi))
