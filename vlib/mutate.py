"""Mutators (DESIGN.md 4.4): bit/byte flips, length-field edits, truncation, duplication/splicing of TLVs."""
import struct

INTERESTING = [0, 1, 2, 3, 4, 7, 8, 15, 16, 24, 31, 32, 33, 63, 64, 65, 127, 128, 129, 254, 255]


def byte_edits(data, values=None):
    """every single-octet substitution at every position with the given values"""
    vals = INTERESTING if values is None else values
    for i in range(len(data)):
        o = data[i]
        for v in set(list(vals) + [(o + 1) & 255, (o - 1) & 255, o ^ 0x80]):
            if v != o:
                yield data[:i] + bytes([v]) + data[i + 1:]


def truncations(data):
    for i in range(len(data)):
        yield data[:i]


def length_edits16(data):
    """treat every aligned and unaligned 16-bit window as a length field"""
    n = len(data)
    for i in range(n - 1):
        true = n - i - 2
        for v in (0, 1, true - 1, true, true + 1, 255, 256, 65535):
            if 0 <= v <= 65535:
                yield data[:i] + struct.pack('!H', v) + data[i + 2:]


def random_mutation(data, rng, maxlen=4096):
    r = rng.random()
    b = bytearray(data)
    if not b:
        return bytes(rng.randrange(256) for _ in range(rng.randint(1, 8)))
    if r < 0.3:
        for _ in range(rng.randint(1, 4)):
            b[rng.randrange(len(b))] = rng.choice(INTERESTING + [rng.randrange(256)])
    elif r < 0.45:
        i = rng.randrange(len(b))
        b[i] ^= 1 << rng.randrange(8)
    elif r < 0.6:
        i, j = sorted((rng.randrange(len(b) + 1), rng.randrange(len(b) + 1)))
        b[i:j] = b''
    elif r < 0.75:
        i, j = sorted((rng.randrange(len(b) + 1), rng.randrange(len(b) + 1)))
        k = rng.randrange(len(b) + 1)
        b[k:k] = b[i:j] * rng.randint(1, 3)
    elif r < 0.85 and len(b) >= 2:
        i = rng.randrange(len(b) - 1)
        b[i:i + 2] = struct.pack('!H', rng.choice([0, 1, len(b) - i - 2, len(b) - i - 1, len(b), 255, 256, 4096, 65535]) & 0xffff)
    elif r < 0.93:
        b += bytes(rng.choice([0, 0xff, rng.randrange(256)]) for _ in range(rng.randint(1, 64)))
    else:
        b = bytearray(bytes(b) * rng.randint(2, 6))
    return bytes(b[:maxlen])


def splice(a, b, rng):
    i = rng.randrange(len(a) + 1)
    j = rng.randrange(len(b) + 1)
    return a[:i] + b[j:]
