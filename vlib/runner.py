"""Shard runner, evidence / replay / known-findings plumbing (DESIGN.md 2.3, 3.7, 8).

A check module (checks/cNN.py) provides:
  PROPERTY, LEVEL, RULE, ASSUMPTIONS, TECHNIQUE
  plan(tier, seed) -> list of JSON-able shard dicts
  run_shard(shard) -> result dict (see merge())
  floors(merged, tier) -> list of strings naming monitors that were not reached (-> inconclusive)
  replay(rep) -> list of violation dicts (empty = held)
Result dict keys (all optional):
  evaluations:int  counters:{k:int}  maxima:{k:num}  sets:{k:[json-able]}  distinct:[str]
  samples:[...]  violations:[{kind, features:[..], detail, replay:{..}}]  inconclusive:int
"""
import argparse
import importlib
import json
import os
import resource
import subprocess
import sys
import tempfile
import time

from vlib.env import real_monotonic

from . import env

VERIF = env.VERIF
PY = '/venv/bin/python'
MAX_SAMPLES = 12
MAX_SET = 4000


def load_known():
    p = os.path.join(VERIF, 'known_findings.json')
    if not os.path.exists(p):
        return []
    with open(p) as fh:
        return json.load(fh).get('findings', [])


def match_finding(v, findings, prop):
    """A violation is attributed to a finding only if the observed deviation kind matches AND
    every input feature the finding requires is present (mechanism, never seed/hash)."""
    feats = set(v.get('features', []))
    for f in findings:
        if f.get('property') != prop:
            continue
        if f.get('kind') != v.get('kind'):
            continue
        if not set(f.get('requires', [])) <= feats:
            continue
        if any(x in feats for x in f.get('excludes', [])):
            continue
        return f
    return None


def merge(results):
    m = dict(evaluations=0, counters={}, maxima={}, sets={}, distinct=set(), samples=[], violations=[],
             inconclusive=0, shards=0, shards_failed=0, notes=[])
    for r in results:
        m['shards'] += 1
        if r.get('_failed'):
            m['shards_failed'] += 1
            m['notes'].append(r['_failed'])
            continue
        m['evaluations'] += r.get('evaluations', 0)
        m['inconclusive'] += r.get('inconclusive', 0)
        for k, v in r.get('counters', {}).items():
            m['counters'][k] = m['counters'].get(k, 0) + v
        for k, v in r.get('maxima', {}).items():
            if k not in m['maxima'] or v > m['maxima'][k]:
                m['maxima'][k] = v
        for k, v in r.get('sets', {}).items():
            s = m['sets'].setdefault(k, set())
            for x in v:
                s.add(x if isinstance(x, str) else json.dumps(x, sort_keys=True))
        m['distinct'].update(r.get('distinct', []))
        for s in r.get('samples', []):
            if len(m['samples']) < MAX_SAMPLES:
                m['samples'].append(s)
        m['violations'] += r.get('violations', [])
        m['notes'] += r.get('notes', [])
    return m


def _limits(mem_gb):
    def f():
        try:
            lim = int(mem_gb * (1 << 30))
            resource.setrlimit(resource.RLIMIT_AS, (lim, lim))
        except Exception:
            pass
    return f


def run_shards(check_id, shards, jobs, shard_timeout, mem_gb=3.0):
    tmp = tempfile.mkdtemp(prefix='verif-%s-' % check_id)
    results = [None] * len(shards)
    running = {}
    nxt = 0
    envv = dict(os.environ, PYTHONDONTWRITEBYTECODE='1', PYTHONHASHSEED='0', VERIF_TMP=tmp)
    try:
        while nxt < len(shards) or running:
            while nxt < len(shards) and len(running) < jobs:
                sf = os.path.join(tmp, 'shard%d.json' % nxt)
                of = os.path.join(tmp, 'out%d.json' % nxt)
                ef = os.path.join(tmp, 'err%d.txt' % nxt)
                with open(sf, 'w') as fh:
                    json.dump(dict(shards[nxt], _soft=0.45 * shard_timeout), fh)
                p = subprocess.Popen([PY, '-m', 'vlib.worker', check_id, sf, of], cwd=VERIF, env=envv,
                                     stdout=open(ef, 'w'), stderr=subprocess.STDOUT, preexec_fn=_limits(mem_gb))
                running[nxt] = (p, real_monotonic(), of, ef)
                nxt += 1
            done = []
            for i, (p, t0, of, ef) in running.items():
                rc = p.poll()
                if rc is None:
                    if real_monotonic() - t0 > shard_timeout:
                        p.kill()
                        p.wait()
                        results[i] = {'_failed': 'shard %d: watchdog after %ds (inconclusive)' % (i, shard_timeout)}
                        done.append(i)
                    continue
                if rc == 0 and os.path.exists(of):
                    with open(of) as fh:
                        results[i] = json.load(fh)
                else:
                    tail = ''
                    try:
                        with open(ef) as fh:
                            tail = fh.read()[-1500:]
                    except Exception:
                        pass
                    results[i] = {'_failed': 'shard %d: worker exit %s: %s' % (i, rc, tail)}
                done.append(i)
            for i in done:
                del running[i]
            if not done:
                time.sleep(0.02)
    finally:
        for p, _, _, _ in running.values():
            p.kill()
        subprocess.call(['rm', '-rf', tmp, os.path.join('/dev/shm', os.path.basename(tmp))])
    return results


def sig(v):
    return v.get('kind', '?') + '|' + ','.join(sorted(v.get('features', [])))


def main(argv=None):
    ap = argparse.ArgumentParser()
    ap.add_argument('check')
    ap.add_argument('--tier', default=os.environ.get('VERIF_TIER', 'quick'), choices=['quick', 'thorough'])
    ap.add_argument('--replay')
    ap.add_argument('--jobs', type=int, default=int(os.environ.get('VERIF_JOBS', '0')) or (os.cpu_count() or 4))
    ap.add_argument('--seed', type=int, default=None)
    ap.add_argument('--no-evidence', action='store_true')
    a = ap.parse_args(argv)
    cid = a.check.upper()
    seed = a.seed if a.seed is not None else int(os.environ.get('VERIF_SEED', '0') or 0)
    sys.path.insert(0, VERIF)
    ensure_deps()
    mod = importlib.import_module('checks.%s' % cid.lower())
    t0 = real_monotonic()
    if a.replay:
        with open(a.replay) as fh:
            rep = json.load(fh)
        of = tempfile.mktemp(prefix='verif-replay-')
        envv = dict(os.environ, PYTHONDONTWRITEBYTECODE='1', PYTHONHASHSEED='0')
        rc = subprocess.call([PY, '-m', 'vlib.worker', cid, '--replay', a.replay, of], cwd=VERIF, env=envv)
        vs = []
        if os.path.exists(of):
            with open(of) as fh:
                vs = json.load(fh).get('violations', [])
            os.unlink(of)
        elif rc != 0:
            print('replay worker failed (exit %s): inconclusive' % rc)
            return 2
        findings = load_known()
        bad = 0
        for v in vs:
            f = match_finding(v, findings, cid)
            if f:
                print('KNOWN-FINDING: property=%s %s' % (cid, f['key']))
            else:
                bad += 1
                print('VIOLATION property=%s replay=%s' % (cid, a.replay))
                print('  ' + v.get('kind', '') + ': ' + str(v.get('detail', ''))[:800])
        if not vs:
            print('replay: property held on this case')
        return 1 if bad else 0

    shards = mod.plan(a.tier, seed)
    timeout = getattr(mod, 'SHARD_TIMEOUT', {}).get(a.tier, 900)
    results = run_shards(cid, shards, a.jobs, timeout, getattr(mod, 'MEM_GB', 3.0))
    m = merge(results)
    findings = load_known()
    known_hit = {}
    unknown = {}
    for v in m['violations']:
        f = match_finding(v, findings, cid)
        if f:
            known_hit.setdefault(f['key'], [f, 0])[1] += 1
        else:
            unknown.setdefault(sig(v), []).append(v)
    rdir = os.path.join(os.environ.get('VERIF_REPLAY_DIR') or os.path.join(VERIF, 'replays'), cid)
    lines = []
    if unknown:
        os.makedirs(rdir, exist_ok=True)
    n = 0
    for s, vs in sorted(unknown.items()):
        n += 1
        path = os.path.join(rdir, '%s-%d.json' % (a.tier, n))
        v = vs[0]
        with open(path, 'w') as fh:
            std = dict(property=cid, kind=v.get('kind'), features=v.get('features', []), detail=v.get('detail'),
                       count=len(vs), seed=seed, tier=a.tier)
            rec = {('case_' + k if k in std else k): val for k, val in (v.get('replay') or {}).items()}
            rec.update(std)
            json.dump(rec, fh, indent=1, default=str)
        lines.append('VIOLATION property=%s replay=%s' % (cid, path))
        lines.append('  [%d case(s)] %s: %s' % (len(vs), s, str(v.get('detail', ''))[:600]))
    unmet = list(mod.floors(m, a.tier)) if hasattr(mod, 'floors') else []
    if m['shards_failed']:
        # a watchdog / crash is inconclusive for the cases in flight; tolerated only below 1/8 of the shards
        crashed = [n for n in m['notes'] if 'watchdog' not in n]
        if crashed:
            # a worker that died is a fault of this machinery: never folded into 'held'
            unmet.append('%d shard worker(s) crashed: %s' % (len(crashed), crashed[0][-300:].replace('\n', ' | ')))
        if m['shards_failed'] * 8 > m['shards']:
            unmet.append('%d of %d shards failed' % (m['shards_failed'], m['shards']))
    wall = real_monotonic() - t0
    distinct = len(m['distinct'])
    cov = dict(evaluations=m['evaluations'], distinct_nontrivial=distinct, rule=mod.RULE,
               samples=m['samples'][:MAX_SAMPLES], counters=m['counters'], maxima=m['maxima'],
               sets={k: sorted(v)[:MAX_SET] for k, v in m['sets'].items()},
               set_sizes={k: len(v) for k, v in m['sets'].items()},
               shards=m['shards'], shards_failed=m['shards_failed'], inconclusive_cases=m['inconclusive'],
               known_findings_hit={k: c for k, (f, c) in known_hit.items()},
               unmet_floors=unmet, notes=m['notes'][:20])
    if hasattr(mod, 'extra_coverage'):
        cov.update(mod.extra_coverage(m, a.tier))
    ev = dict(property_id=cid, tier=a.tier, seed=seed, level=mod.LEVEL, coverage=cov,
              assumptions=list(mod.ASSUMPTIONS), wall_s=round(wall, 2), violations=len(unknown),
              technique=getattr(mod, 'TECHNIQUE', ''), verdict='violated' if unknown else ('inconclusive' if unmet else 'held on what was observed'))
    if not a.no_evidence:
        os.makedirs(os.path.join(VERIF, 'evidence'), exist_ok=True)
        with open(os.path.join(VERIF, 'evidence', '%s.json' % cid), 'w') as fh:
            json.dump(ev, fh, indent=1, sort_keys=True, default=str)
    for k, (f, c) in sorted(known_hit.items()):
        print('KNOWN-FINDING: property=%s %s (%d case(s): %s)' % (cid, k, c, f.get('observed', '')))
    for ln in lines:
        print(ln)
    print('%s %s: evaluations=%d distinct=%d shards=%d failed=%d inconclusive_cases=%d wall=%.1fs' % (
        cid, a.tier, m['evaluations'], distinct, m['shards'], m['shards_failed'], m['inconclusive'], wall))
    for k in sorted(m['counters']):
        print('   %s=%s' % (k, m['counters'][k]))
    for k in sorted(m['maxima']):
        print('   max %s=%s' % (k, m['maxima'][k]))
    for k in sorted(m['sets']):
        print('   |%s|=%d' % (k, len(m['sets'][k])))
    for nline in m['notes'][:2]:
        print('   note: ' + str(nline)[:60] + ' ... ' + str(nline)[-400:].replace(chr(10), ' | '))
    if unknown:
        return 1
    if unmet:
        print('INCONCLUSIVE property=%s: %s' % (cid, '; '.join(unmet)))
        return 2
    return 0


def ensure_deps():
    """icontract / deal beside the repository's interpreter, from the offline wheelhouse."""
    d = env.DEPS
    if os.path.isdir(os.path.join(d, 'icontract')):
        return
    os.makedirs(d, exist_ok=True)
    subprocess.call(['/venv/bin/pip', 'install', '--quiet', '--no-index', '--find-links', '/opt/veriftools/wheels',
                     '--target', d, 'icontract', 'deal'],
                    stdout=subprocess.DEVNULL, stderr=subprocess.DEVNULL)


if __name__ == '__main__':
    sys.exit(main())
